"""C03 — rates conserve the texture manifold: skew spins and zero net volume change."""

import numpy as np
from hypothesis import strategies as st

from vlib import drexcase, gen, ref_drex
from vlib.harness import Oracle, Skip, Violation, require

RULE = (
    "Cases as for C02 (6 phase/fabric pairs, both dislocation-type regimes, all texture "
    "and volume families, all velocity-gradient families incl. un-normalised scales "
    "0.1..10 and the zero gradient) plus a degenerate family built to defeat slip: "
    "every grain an axis-aligned rotation (or within 1e-2..1e-16 rad of one) under "
    "axis-aligned simple/pure shear and axisymmetric flows, volumes with exact zeros "
    "and one dominant grain, M*=0, and (thorough) 1e3..1e5 grains; any of these optionally "
    "re-expressed in a rotated reference frame (so that aligned grains yield slip invariants "
    "that are rounding residues). Oracle degenerate_grid enumerates a finite family "
    "exhaustively per generated fabric/regime/parameter set: 24 axis-aligned grains x 64 "
    "frames rotated by multiples of 90 degrees built from Euler angles (entries ~6e-17 "
    "instead of exact zeros) x 18 axis-aligned flows x 3 scales = 82944 solver calls. Non-trivial: >=3 "
    "grains with pairwise distinct strain energies (reference model), or a grain with "
    "zero volume, or a grain on which no slip system resolves (max activity<1e-9); "
    "distinct = distinct canonical JSON of the generated case."
)
ASSUMPTIONS = [
    "generated orientation matrices are orthonormal to 1e-15 (built from normalised quaternions)",
    "pair-decomposition oracle uses only two-grain calls of the solver itself (no reference model)",
]


def degenerate_case():
    aligned = st.one_of(
        st.fixed_dictionaries({"k": st.just("ax"), "i": st.integers(0, 23)}),
        st.fixed_dictionaries({"k": st.just("e90"), "a": st.lists(st.integers(0, 3), min_size=3, max_size=3)}),
        st.fixed_dictionaries(
            {
                "k": st.just("near"),
                "i": st.integers(0, 23),
                "axis": st.lists(gen.unit_float, min_size=3, max_size=3),
                "e": st.integers(2, 16),
            }
        ),
    )
    return st.fixed_dictionaries(
        {
            "par": gen.drex_params(),
            "tex": st.fixed_dictionaries({"fam": st.just("explicit"), "rots": st.lists(aligned, min_size=1, max_size=6)}),
            "vol": gen.volume_spec(),
            "L": st.fixed_dictionaries(
                {
                    "fam": st.sampled_from(["simple", "pure", "axi_c", "axi_e", "general"]),
                    "Q": st.one_of(
                        st.fixed_dictionaries({"k": st.just("ax"), "i": st.integers(0, 23)}),
                        st.fixed_dictionaries({"k": st.just("e90"), "a": st.lists(st.integers(0, 3), min_size=3, max_size=3)}),
                    ),
                    "a": st.sampled_from([-1.0, 0.0, 1.0]),
                    "w": st.lists(st.sampled_from([0.0, 1.0, -2.0]), min_size=3, max_size=3),
                    "raw": st.just([0.0] * 9),
                    "tr": st.just(0.0),
                    "use_tr": st.just(False),
                }
            ),
        }
    )


def scaled_case(max_n=24):
    # "frame": the whole problem (orientations and flow) re-expressed in a rotated reference
    # frame, so that grains aligned with the flow keep their alignment but the slip invariants
    # become rounding residues (some exactly 0, some ~1e-17) instead of exact zeros
    return st.fixed_dictionaries(
        {
            "base": st.one_of(drexcase.rate_case(max_n, 8), degenerate_case()),
            "scale": st.sampled_from([1.0, 1.0, 0.1, 10.0, 0.0]),
            "frame": st.one_of(st.none(), gen.rotation_spec(), st.fixed_dictionaries({"k": st.just("e90"), "a": st.lists(st.integers(0, 3), min_size=3, max_size=3)})),
        }
    )


def expand(case):
    x = drexcase.expand(case["base"])
    if x is None:
        # zero strain rate: still a legal input to the solver (all rates must vanish or be finite)
        par = case["base"]["par"]
        phase, fabric, fname = gen.FABRICS[par["pf"]]
        A = gen.orientations(case["base"]["tex"])
        x = {
            "regime": par["regime"], "phase": phase, "fabric": fabric, "fname": fname, "A": A,
            "f": gen.volumes(case["base"]["vol"], len(A)), "L": np.zeros((3, 3)), "D": np.zeros((3, 3)),
            "scale": 0.0, "p": par["p"], "n": par["n"], "lam": par["lam"], "M": par["M"], "phi": par["phi"],
        }
    s = case["scale"]
    x["L"] = x["L"] * s
    x["D"] = x["D"] * s
    if case.get("frame") is not None:
        Q = gen.rot(case["frame"])
        x["A"] = x["A"] @ Q.T
        x["L"] = Q @ x["L"] @ Q.T
        D = Q @ x["D"] @ Q.T
        x["D"] = (D + D.T) / 2
    return x


def _grain_info(x):
    _, _, gs, E = ref_drex.derivatives(
        x["regime"], x["phase"], x["fabric"], x["A"], x["f"], x["L"], x["p"], x["n"], x["lam"], x["M"], x["phi"]
    )
    cond = drexcase.conditioning(x, gs)
    return gs, E, cond


def _denormal(x):
    """Slip invariants that are non-zero but below 1e-290: 1/I overflows.  Not reachable
    from callers (orientation entries would have to be denormal numbers); excluded and
    counted, see DESIGN.md section 5."""
    l = x["A"][:, [0, 0, 2, 2], :]
    n = x["A"][:, [1, 2, 1, 0], :]
    I = np.abs(np.einsum("gsi,ij,gsj->gs", l, x["D"], n))
    return bool(np.any((I > 0) & (I < 1e-290)))


def check_manifold(case):
    """(a) skew spin, (b) sum zero, (c) dead grains, (g) finite and no exception."""
    x = expand(case)
    if _denormal(x):
        raise Skip("denormal slip invariant")
    Adot, fdot = drexcase.call(x)
    n = len(x["A"])
    require(Adot.shape == (n, 3, 3) and fdot.shape == (n,), f"output shapes {Adot.shape}, {fdot.shape}")
    require(np.all(np.isfinite(Adot)), "non-finite orientation rate")
    require(np.all(np.isfinite(fdot)), "non-finite volume rate")
    lscale = 1e-300 + np.abs(x["L"]).max()
    S = np.einsum("gki,gkj->gij", x["A"], Adot)  # A^T . Adot per grain
    skew = float(np.abs(S + S.transpose(0, 2, 1)).max())
    require(skew <= 1e-12 * max(lscale, 1e-3), f"orientation rate is not A.(skew spin): |S+S^T|={skew:.3e}", skew)
    tot = abs(float(np.sum(fdot)))
    require(tot <= 1e-11 * (1 + x["M"]), f"volume rates sum to {tot:.3e} (fractions sum to 1)", tot)
    dead = x["f"] == 0.0
    require(np.all(fdot[dead] == 0.0), "grain of zero volume has non-zero volume rate")
    if x["M"] == 0.0:
        require(np.all(fdot == 0.0), "volume rates non-zero although boundary mobility is zero")
    gs, E, cond = _grain_info(x)
    distinct_E = len(np.unique(np.round(E, 9)))
    return {
        "nontrivial": bool((n >= 3 and distinct_E >= 3) or dead.any() or cond["noslip"] > 0),
        "labels": [x["fname"], f"scale{case['scale']}", "dead" if dead.any() else "nodead", "noslip" if cond["noslip"] else "slip"],
        "residual": max(skew / max(lscale, 1e-3), tot / (1 + x["M"])),
    }


def check_linearity(case):
    """(d) linear in M* and phi, independent orientation rates."""
    x = expand(case["c"])
    if _denormal(x):
        raise Skip("denormal slip invariant")
    M1, M2 = case["M1"], case["M2"]
    phi2 = case["phi2"]
    A1, f1 = drexcase.call(x, gbm_mobility=M1)
    A2, f2 = drexcase.call(x, gbm_mobility=M2)
    sc = 1e-300 + max(np.abs(f1).max(), np.abs(f2).max())
    lin = float(np.abs(f1 * M2 - f2 * M1).max()) / max(1.0, M1, M2)
    require(lin <= 1e-12 * max(sc, 1.0), f"volume rates not linear in boundary mobility (residual {lin:.3e})", lin)
    require(np.array_equal(A1, A2), "orientation rates depend on boundary mobility")
    A3, f3 = drexcase.call(x, gbm_mobility=M1, volume_fraction=phi2)
    lin2 = float(np.abs(f1 * phi2 - f3 * x["phi"]).max())
    require(lin2 <= 1e-12 * max(sc, 1.0), f"volume rates not linear in phase volume fraction (residual {lin2:.3e})", lin2)
    require(np.array_equal(A1, A3), "orientation rates depend on the phase volume fraction")
    A0, f0 = drexcase.call(x, gbm_mobility=0.0)
    require(np.all(f0 == 0.0), "volume rates do not vanish for zero mobility")
    # orientation rates do not depend on the volume distribution
    fu = np.full(len(x["A"]), 1.0 / len(x["A"]))
    A4, _ = drexcase.call(x, fractions=fu)
    require(np.array_equal(A1, A4), "orientation rates depend on the volume fractions")
    return {"nontrivial": bool(len(x["A"]) >= 3 and sc > 1e-9), "labels": [x["fname"]], "residual": max(lin, lin2)}


def check_pair_decomposition(case):
    """(e)+(f): N-grain volume rates equal phi*M*f_i*sum_j f_j (E_j-E_i) with the energy
    differences read off two-grain calls of the solver; growth sign follows."""
    x = expand({"base": case["base"], "scale": 1.0, "frame": None})
    n = len(x["A"])
    if n < 2 or n > 10:
        raise Skip("grain count outside 2..10")
    gs, E, cond = _grain_info(x)
    if cond["tie"] or cond["gamma0"]:
        raise Skip("ill-conditioned energies")
    M = max(x["M"], 1.0)
    phi = x["phi"]
    x = dict(x, M=M)
    # energy of grain i relative to grain 0 from two-grain aggregates with f = (1/2, 1/2)
    delta = np.zeros(n)
    for i in range(1, n):
        sub = dict(x, A=x["A"][[0, i]], f=np.array([0.5, 0.5]))
        _, fd = drexcase.call(sub)
        # fd[0] = phi*M/4*(E_i - E_0)
        delta[i] = 4.0 * fd[0] / (phi * M) / (0.3 if x["regime"] == 6 else 1.0)
    _, fdot = drexcase.call(x)
    damp = 0.3 if x["regime"] == 6 else 1.0
    mean = float(np.sum(x["f"] * delta))
    expect = damp * phi * M * x["f"] * (mean - delta)
    err = float(np.abs(fdot - expect).max())
    require(err <= 1e-10 * (1 + M), f"volume rates are not phi*M*f_i*(volume-weighted mean energy - E_i): residual {err:.3e}", err)
    # growth sign
    margin = np.abs(mean - delta) > 1e-8
    alive = x["f"] > 0
    sel = margin & alive
    require(
        np.all(np.sign(fdot[sel]) == np.sign(mean - delta[sel])),
        "a grain does not grow exactly when its strain energy is below the volume-weighted mean",
    )
    # and against the reference energies (independent of the solver); grains whose resolved
    # slip is rounding noise (activity < 1e-9) have noise-level energies ~ eps^(p/n): no verdict
    Ebar = float(np.sum(x["f"] * E))
    sel2 = (np.abs(Ebar - E) > 1e-8) & alive & (cond["noslip"] == 0)
    require(
        np.all(np.sign(fdot[sel2]) == np.sign(Ebar - E[sel2])),
        "growth sign disagrees with the published strain energy (reference model)",
    )
    return {
        "nontrivial": bool(n >= 3 and len(np.unique(np.round(E, 9))) >= 3),
        "labels": [x["fname"], f"n{n}"],
        "residual": err / (1 + M),
    }


_GRID_FLOWS = None


def _grid_flows():
    """Axis-aligned flows (unit max strain rate): simple shears in the three planes, pure
    shears, axisymmetric compression/extension, each also with a vorticity component."""
    global _GRID_FLOWS
    if _GRID_FLOWS is None:
        flows = []
        for i in range(3):
            for j in range(3):
                if i != j:
                    L = np.zeros((3, 3))
                    L[i, j] = 2.0
                    flows.append(L)
        for d in ([1.0, -1.0, 0.0], [0.0, 1.0, -1.0], [-1.0, 0.0, 1.0], [0.5, 0.5, -1.0], [-0.5, -0.5, 1.0], [1.0, -0.5, -0.5]):
            flows.append(np.diag(d))
            W = np.array([[0.0, -1.0, 0.0], [1.0, 0.0, 0.0], [0.0, 0.0, 0.0]])
            flows.append(np.diag(d) + W)
        _GRID_FLOWS = flows
    return _GRID_FLOWS


def check_degenerate_grid(case):
    """Finite enumeration: every axis-aligned grain (24) x every frame rotation by multiples of
    90 degrees built from Euler angles with floating-point residues (64) x 18 axis-aligned
    flows x 3 scales, for one generated fabric/regime/parameter set: single-grain solver calls
    must return finite, skew, zero-volume-rate results without raising."""
    phase, fabric, fname = gen.FABRICS[case["pf"]]
    n_calls = 0
    worst = 0.0
    frames = [gen._euler90([a, b, c]) for a in range(4) for b in range(4) for c in range(4)]
    from pydrex import core as _core

    for A0 in gen.AXIS24:
        for Q in frames:
            A = np.ascontiguousarray((A0 @ Q.T)[None])
            for L0 in _grid_flows():
                Lr = Q @ L0 @ Q.T
                for sc in (1.0, 0.1, 10.0):
                    L = Lr * sc
                    D = (L + L.T) / 2
                    try:
                        Adot, fdot = _core.derivatives(
                            regime=case["regime"], phase=phase, fabric=fabric, n_grains=1, orientations=A,
                            fractions=np.ones(1), strain_rate=D, velocity_gradient=L,
                            deformation_gradient_spin=np.zeros((3, 3)), stress_exponent=case["p"],
                            deformation_exponent=case["n"], nucleation_efficiency=case["lam"], gbm_mobility=125.0, volume_fraction=1.0,
                        )
                    except Exception as e:  # noqa: BLE001
                        raise Violation(f"derivatives raised {type(e).__name__}: {e} ({fname}, aligned grain in a frame rotated by multiples of 90 degrees)")
                    n_calls += 1
                    if not (np.all(np.isfinite(Adot)) and np.all(np.isfinite(fdot))):
                        raise Violation(f"non-finite rates for an aligned {fname} grain in a frame rotated by multiples of 90 degrees (scale {sc})")
                    S = A[0].T @ Adot[0]
                    sk = float(np.abs(S + S.T).max())
                    if sk > 1e-12 * max(1.0, np.abs(L).max()):
                        raise Violation(f"orientation rate is not A.(skew spin): {sk:.3e} ({fname})", sk)
                    worst = max(worst, sk)
                    if fdot[0] != 0.0:
                        raise Violation(f"single grain with all the volume has volume rate {fdot[0]!r}")
    return {"nontrivial": True, "labels": [fname, f"calls{n_calls}"], "residual": worst}


def big_case():
    return st.fixed_dictionaries(
        {
            "base": st.fixed_dictionaries(
                {
                    "par": gen.drex_params(),
                    "tex": st.one_of(
                        st.fixed_dictionaries(
                            {"fam": st.just("random"), "n": st.integers(1000, 100000), "seed": gen.small_seed}
                        ),
                        st.fixed_dictionaries(
                            {"fam": st.just("single"), "n": st.integers(1000, 100000), "base": gen.rotation_spec()}
                        ),
                    ),
                    "vol": gen.volume_spec(),
                    "L": gen.velgrad_spec(),
                }
            ),
            "scale": st.just(1.0),
        }
    )


def classify(case):
    base = case.get("base") or case["c"]["base"]
    return gen.FABRICS[base["par"]["pf"]][2]


ORACLES = [
    Oracle("manifold", scaled_case(24), check_manifold, classify=classify, quick=1500, thorough=15000),
    Oracle(
        "linearity",
        st.fixed_dictionaries(
            {"c": scaled_case(12), "M1": st.floats(0.5, 200.0), "M2": st.floats(0.5, 200.0), "phi2": st.floats(0.01, 1.0)}
        ),
        check_linearity,
        classify=classify,
        quick=400,
        thorough=5000,
    ),
    Oracle(
        "pair_decomposition",
        st.fixed_dictionaries({"base": drexcase.rate_case(8, 8)}),
        check_pair_decomposition,
        classify=classify,
        quick=300,
        thorough=4000,
    ),
    Oracle("manifold_large", big_case(), check_manifold, classify=classify, quick=3, thorough=12),
    Oracle(
        "degenerate_grid",
        st.fixed_dictionaries(
            {
                "pf": st.integers(0, 5),
                "regime": st.sampled_from([4, 6]),
                "p": st.sampled_from([1.0, 1.5, 2.0]),
                "n": st.sampled_from([2.0, 3.5, 5.0]),
                "lam": st.sampled_from([0.0, 5.0]),
            }
        ),
        check_degenerate_grid,
        classify=lambda c: gen.FABRICS[c["pf"]][2],
        quick=6,
        thorough=6,
    ),
]
