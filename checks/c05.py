"""C05 — texture depends on the strain path, not on the strain rate."""

import numpy as np
from hypothesis import strategies as st

from vlib import gen, hist
from vlib.harness import Oracle, Rejected, Skip, require

RULE = (
    "A case is a C01-style history (2..40 grains, 1..6 updates, T<=2, dislocation-type "
    "regimes, all fabrics/parameters/textures, time- and position-dependent L) run twice: "
    "with strain-rate scale s=10^u and with s'=10^u2 (u,u2 independent in [-16,3], so "
    "k=s'/s spans up to 1e19 either way) while the time axis is compressed by 1/k "
    "(L'(t',x)=k L(k t',x), x'(t')=x(k t')). All stored snapshots and the returned F must "
    "agree. Non-trivial: |log10 k|>=1, accumulated strain >=0.2 and M*>0; distinct = "
    "distinct canonical JSON of the case."
)
ASSUMPTIONS = [
    "violation threshold is the statement's solver-tolerance bound 5e-3+1e-3(N+2 strain); the observed maximum (1e-14 class on the present code) is reported as max_residual so that a drift is visible without raising an alarm",
]


def case_strategy(max_n=40, max_updates=6):
    return st.fixed_dictionaries(
        {
            "min": hist.mineral_spec(2, max_n, regimes=(4, 6)),
            "par": hist.param_spec(),
            "F0": hist.f0_spec(),
            "flow": hist.flow_spec(2.0),
            "cuts": hist.cuts_spec(max_updates),
            "u2": st.one_of(st.floats(-16.0, 3.0), st.sampled_from([-16.0, -15.5, -15.0, 3.0, 0.0]), st.floats(-16.0, -15.0), st.floats(2.0, 3.0)),
        }
    )


def _run(case, mult):
    ms = case["min"]
    m = hist.build_mineral(ms)
    phase = gen.FABRICS[ms["pf"]][0]
    params = hist.params_dict(case["par"], (phase,), (1.0,), hist.mineral_n(ms))
    flow = hist.Flow(case["flow"], rate_mult=mult)
    F = hist.f0(case["F0"])
    taus = hist.tau_points(flow.T, case["cuts"])
    Fs = []
    for ta, tb in zip(taus[:-1], taus[1:]):
        F = hist.update(m, params, F, flow, ta, tb)
        Fs.append(F.copy())
    return m, Fs, flow, taus


def check_rescaling(case):
    u, u2 = case["flow"]["u"], case["u2"]
    k = 10.0 ** (u2 - u)
    m1, F1, flow, taus = _run(case, 1.0)
    m2, F2, _, _ = _run(case, k)
    require(len(m1.orientations) == len(m2.orientations), "different number of snapshots")
    strain = 0.0
    worst = 0.0
    rawmax = 0.0
    for i in range(1, len(m1.orientations)):
        strain += flow.strain(taus[i - 1], taus[i], 201)
        bound = 5e-3 + 1e-3 * (i + 2 * strain)
        eA = float(np.abs(m1.orientations[i] - m2.orientations[i]).max())
        ef = float(np.abs(m1.fractions[i] - m2.fractions[i]).max())
        eF = float(np.linalg.norm(F1[i - 1] - F2[i - 1]) / np.linalg.norm(F1[i - 1]))
        require(eA <= bound, f"orientations change by {eA:.3e} when the strain rate is scaled by {k:.3e} (snapshot {i})", eA)
        require(ef <= bound, f"volume fractions change by {ef:.3e} when the strain rate is scaled by {k:.3e} (snapshot {i})", ef)
        require(eF <= bound, f"returned F changes by {eF:.3e} (relative) when the strain rate is scaled by {k:.3e}", eF)
        worst = max(worst, eA / bound, ef / bound, eF / bound)
        rawmax = max(rawmax, eA, ef, eF)
    return {
        "nontrivial": bool(abs(u2 - u) >= 1.0 and strain >= 0.2 and case["par"]["M"] > 0),
        "labels": [
            gen.FABRICS[case["min"]["pf"]][2],
            f"log10k={int(np.clip((u2 - u) // 4 * 4, -16, 16))}",
            "raw<1e-9" if rawmax < 1e-9 else "raw>=1e-9",
        ],
        "residual": rawmax,
    }


SHARDS = {"quick": 8, "thorough": 16}
ORACLES = [
    Oracle("time_rescaling", case_strategy(), check_rescaling, quick=128, thorough=1500, shrink_seconds=180),
]
