"""C06 — the returned deformation gradient is the solution of dF/dt = L.F."""

import numpy as np
from hypothesis import strategies as st
from scipy.linalg import expm

import pydrex
from pydrex import core as _core

from vlib import gen, hist
from vlib.harness import Oracle, Rejected, Skip, Violation, require, sut

RULE = (
    "A case is an update history as in C01 (mineral of any phase/fabric/accepted regime, "
    "2..24 grains, any texture/parameters) with a generated starting F (identity or "
    "rotation x stretch with principal stretches in [0.4,2.5]), velocity-gradient history "
    "(constant, time-dependent, position-dependent along a linear/circular pathline; rate "
    "scale 10^u, u in [-16,3]; optional trace) and partition into 1..12 updates; F is "
    "compared after every update with an independent DOP853 solution (rtol 1e-12) of "
    "dF/dtau = Lhat(tau).F and, for constant L, with the matrix exponential. Non-trivial: "
    "the commutator [L0,F0] exceeds 1e-3 |L0||F0| or L depends on time or position; "
    "distinct = distinct canonical JSON of the history."
)
ASSUMPTIONS = [
    "reference F from scipy solve_ivp(DOP853, rtol=1e-12, atol=1e-14) / scipy.linalg.expm",
    "tolerance is the property's own bound 5e-3+1e-3(N+2 strain) at default solver tolerances and 1e-6 when rtol=1e-10, atol=1e-12 are passed through the documented **kwargs",
]


def f_case(max_n=24, max_updates=12, regimes=(4, 6, 4, 6, 1, 0, 7)):
    return st.fixed_dictionaries(
        {
            "min": hist.mineral_spec(2, max_n, regimes=regimes),
            "par": hist.param_spec(),
            "F0": hist.f0_spec(),
            "flow": hist.flow_spec(2.0),
            "cuts": hist.cuts_spec(max_updates),
            "tight": st.booleans(),
            "bulk": st.booleans(),
        }
    )


def rel_err(F, Fref):
    return float(np.linalg.norm(F - Fref) / max(np.linalg.norm(Fref), 1e-300))


def _nontrivial(case, flow, F0):
    L0 = flow.Lhat(0.0)
    comm = np.linalg.norm(L0 @ F0 - F0 @ L0)
    return bool(comm > 1e-3 * np.linalg.norm(L0) * np.linalg.norm(F0) or flow.time_dependent or flow.position_dependent)


def check_solution(case):
    ms = case["min"]
    mineral = hist.build_mineral(ms)
    n = hist.mineral_n(ms)
    phase = gen.FABRICS[ms["pf"]][0]
    params = hist.params_dict(case["par"], (phase,), (1.0,), n)
    flow = hist.Flow(case["flow"])
    F0 = hist.f0(case["F0"])
    F = F0.copy()
    Fref = F0.copy()
    taus = hist.tau_points(flow.T, case["cuts"])
    kw = {"rtol": 1e-10, "atol": 1e-12} if case["tight"] else {}
    strain = 0.0
    worst = 0.0
    const = not (flow.time_dependent or flow.position_dependent)
    for k, (ta, tb) in enumerate(zip(taus[:-1], taus[1:])):
        strain += flow.strain(ta, tb, 201)
        try:
            if case["bulk"]:
                F = hist.update_bulk([mineral], params, F, flow, ta, tb, **kw)
            else:
                F = hist.update(mineral, params, F, flow, ta, tb, **kw)
        except Rejected:
            raise
        Fref = flow.reference_F(Fref, ta, tb)
        N = k + 1
        bound = 1e-6 if case["tight"] else 5e-3 + 1e-3 * (N + 2 * strain)
        require(F.shape == (3, 3) and np.all(np.isfinite(F)), "returned F is not a finite 3x3 matrix")
        e = rel_err(F, Fref)
        require(e <= bound, f"F after update {N} differs from the solution of dF/dt=L.F by {e:.3e} > {bound:.3e}", e)
        worst = max(worst, e / bound)
        # determinant: det F = det F0 * exp(int tr L)
        dref = np.linalg.det(F0) * np.exp(flow.tr_integral(0.0, tb, 401))
        ed = abs(np.linalg.det(F) - dref) / abs(dref)
        require(ed <= 3 * bound + 1e-6, f"det F deviates from det F0*exp(int tr L) by {ed:.3e}", ed)
    if const:
        Fexp = expm(flow.Lhat(0.0) * flow.T) @ F0
        e = rel_err(F, Fexp)
        bound = 1e-6 if case["tight"] else 5e-3 + 1e-3 * (len(taus) - 1 + 2 * strain)
        require(e <= bound, f"F differs from expm(L t).F0 by {e:.3e} > {bound:.3e}", e)
    return {
        "nontrivial": _nontrivial(case, flow, F0),
        "labels": [
            "tight" if case["tight"] else "default_tol",
            "bulk" if case["bulk"] else "single",
            "const" if const else ("time" if flow.time_dependent else "") + ("pos" if flow.position_dependent else ""),
            f"regime{ms['regime']}",
            f"u{int(case['flow']['u'] // 4 * 4)}",
        ],
        "residual": worst,
    }


def indep_case():
    return st.fixed_dictionaries(
        {
            "minA": hist.mineral_spec(2, 20, regimes=(4, 6, 1, 0, 7)),
            "minB": hist.mineral_spec(2, 20, regimes=(4, 6, 1, 0, 7)),
            "parA": hist.param_spec(),
            "parB": hist.param_spec(),
            "F0": hist.f0_spec(),
            "flow": hist.flow_spec(1.5),
            "cuts": hist.cuts_spec(4),
            "split": st.floats(0.1, 0.9),
        }
    )


def check_independence(case):
    """F does not depend on the mineral/parameters; split interval == whole; bulk == single."""
    flow = hist.Flow(case["flow"])
    F0 = hist.f0(case["F0"])
    taus = hist.tau_points(flow.T, case["cuts"])
    kw = {"rtol": 1e-10, "atol": 1e-12}

    def run(ms, ps, pts, assemblage=None, fractions=None, bulk_with=None):
        m = hist.build_mineral(ms)
        phase = gen.FABRICS[ms["pf"]][0]
        if assemblage is None:
            assemblage, fractions = (phase,), (1.0,)
        params = hist.params_dict(ps, assemblage, fractions, hist.mineral_n(ms))
        F = F0.copy()
        for ta, tb in zip(pts[:-1], pts[1:]):
            if bulk_with is not None:
                F = hist.update_bulk([m] + bulk_with, params, F, flow, ta, tb, **kw)
            else:
                F = hist.update(m, params, F, flow, ta, tb, **kw)
        return F

    FA = run(case["minA"], case["parA"], taus)
    FB = run(case["minB"], case["parB"], taus)
    e = rel_err(FA, FB)
    require(e <= 1e-6, f"F depends on the mineral/parameters: relative difference {e:.3e}", e)
    # split one interval further
    pts2 = sorted(set(taus + [case["split"] * flow.T]))
    FA2 = run(case["minA"], case["parA"], pts2)
    e2 = rel_err(FA2, FA)
    require(e2 <= 1e-6, f"split interval gives a different F: {e2:.3e}", e2)
    # bulk multiphase update returns the same F as the single-phase update
    pa = gen.FABRICS[case["minA"]["pf"]][0]
    other = 1 - pa
    ms_other = dict(case["minB"])
    # second mineral of the other phase with the same grain count is not required by update_all
    ms_other["pf"] = 5 if other == 1 else case["minB"]["pf"] % 5
    m_other = hist.build_mineral(ms_other)
    FA3 = run(case["minA"], case["parA"], taus, (pa, other), (0.6, 0.4), bulk_with=[m_other])
    e3 = rel_err(FA3, FA)
    require(e3 <= 1e-6, f"bulk multiphase update returns a different F: {e3:.3e}", e3)
    return {
        "nontrivial": _nontrivial(case, flow, F0),
        "labels": [f"A{case['minA']['regime']}", f"B{case['minB']['regime']}"],
        "residual": max(e, e2, e3) / 1e-6,
    }


def classify(case):
    return "any"


SHARDS = {"quick": 8, "thorough": 16}
ORACLES = [
    Oracle("ode_solution", f_case(), check_solution, quick=160, thorough=1200, shrink_seconds=180),
    Oracle("independence", indep_case(), check_independence, quick=64, thorough=400, shrink_seconds=180),
]
