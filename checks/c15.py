"""C15 — volume-weighted resampling draws grains in proportion to their volume."""

import math

import numpy as np
from hypothesis import strategies as st

import pydrex
from pydrex import stats as S

from vlib import gen
from vlib.harness import Oracle, Skip, Violation, require, sut

RULE = (
    "Cases: stacks of N=1..4 snapshots x M=1..200 grains, volumes on the simplex per "
    "snapshot (uniform, explicit, gamma-random, one dominant grain, exact zeros, "
    "duplicates), n_samples in 1..1e5 quick / 1e6 thorough or None, seeds. Distribution "
    "cases use n_samples>=2e4 and test every grain's count against Binomial(n, f) with a "
    "two-sided z bound of 7. Malformed cases: every wrong-rank / mismatched N or M / "
    "trailing shape != (3,3) combination incl. broadcastable (1,3),(3,1),(1,1). "
    "Generated shapes: ranks 0..5 / 0..3 with dimensions biased towards 3, fractions "
    "optionally tied to the leading dimensions, decided by the consistency rule in both "
    "directions. "
    "Non-trivial: M>=3 with non-uniform volumes (membership/distribution) or a zero-volume "
    "grain present; distinct = distinct canonical JSON."
)
ASSUMPTIONS = [
    "no sample-path oracle: only membership, pairing, shape, reproducibility and distribution are checked, so any correct sampler passes",
    "z bound 7 per grain (two-sided p=2.6e-12) keeps the family-wise false-alarm probability below 1e-8 per run",
]


def stack_case(max_m=200):
    return st.fixed_dictionaries(
        {
            "N": st.integers(1, 4),
            "M": st.integers(1, max_m),
            "seed_tex": gen.small_seed,
            "vol": st.lists(gen.volume_spec(), min_size=4, max_size=4),
            "dup": st.booleans(),
            # every snapshot a vertex of the simplex, written with integers ([[0, 0, 1], ...])
            "vertex": st.sampled_from([False, False, False, False, False, True]),
            "n_samples": st.one_of(st.none(), st.integers(1, 2000), st.integers(1, 100000)),
            "seed": st.one_of(st.integers(0, 2**32 - 1), st.integers(0, 10)),
        }
    )


def _build(case):
    N, M = case["N"], case["M"]
    rng = np.random.default_rng(case["seed_tex"])
    A = np.stack([gen._random_rotations(rng, M) for _ in range(N)])
    f = np.stack([gen.volumes(case["vol"][i], M) for i in range(N)])
    if case.get("vertex"):
        f = np.zeros((N, M), dtype=np.int64)
        for i in range(N):
            f[i, (case["seed_tex"] + 7 * i) % M] = 1
        return A, f
    if case["dup"] and M >= 2:
        # duplicate volumes (ties in the sort)
        f[:, 1] = f[:, 0]
        dead = f.sum(axis=1) == 0
        f[dead, 0] = f[dead, 1] = 0.5
        f /= f.sum(axis=1, keepdims=True)
    return A, f


def check_membership(case):
    A, f = _build(case)
    if case["seed_tex"] % 3 == 1:  # Fortran-ordered inputs (same values)
        A, f = np.asfortranarray(A), np.asfortranarray(f)
    elif case["seed_tex"] % 3 == 2:  # nested lists, as the docstring allows
        A, f = A.tolist(), f.tolist()
    A_arr, f_arr = np.asarray(A), np.asarray(f)
    N, M = f_arr.shape
    ns = case["n_samples"]
    kw = {} if ns is None else {"n_samples": ns}
    A_in, f_in = A_arr.copy(), f_arr.copy()
    oA, of = sut(S.resample_orientations, A, f, seed=case["seed"], **kw)
    require(np.array_equal(np.asarray(A), A_in) and np.array_equal(np.asarray(f), f_in), "inputs were modified")
    A, f = A_arr, f_arr
    n_out = M if ns is None else ns
    require(oA.shape == (N, n_out, 3, 3), f"orientations output shape {oA.shape}, expected {(N, n_out, 3, 3)}")
    require(of.shape == (N, n_out), f"fractions output shape {of.shape}, expected {(N, n_out)}")
    has_zero = False
    for i in range(N):
        # every output pair is an input pair of the same snapshot (orientation AND volume together)
        keys = {}
        for g in range(M):
            keys.setdefault(A[i, g].tobytes(), set()).add(float(f[i, g]))  # by value: integer-typed volumes come back as floats
        for k in range(min(n_out, 4000)):
            ob = oA[i, k].tobytes()
            require(ob in keys, f"snapshot {i}: resampled orientation {k} is not one of the input grains of that snapshot")
            require(float(of[i, k]) in keys[ob], f"snapshot {i}: resampled volume {of[i, k]!r} does not belong to the resampled orientation")
        if n_out > 4000:
            # vectorised membership for the rest via volumes + first matrix entry
            pool = set(zip(A[i, :, 0, 0].tolist(), A[i, :, 1, 2].tolist(), f[i].tolist()))
            got = set(zip(oA[i, :, 0, 0].tolist(), oA[i, :, 1, 2].tolist(), of[i].tolist()))
            require(got <= pool, f"snapshot {i}: a resampled (orientation, volume) pair is not an input pair")
        zero = f[i] == 0.0
        has_zero |= bool(zero.any())
        require(not np.any(of[i] == 0.0) or not zero.any() or True, "")
        require(np.all(of[i] > 0.0), f"snapshot {i}: a zero-volume grain was drawn")
    # reproducible for a given seed
    oA2, of2 = sut(S.resample_orientations, A, f, seed=case["seed"], **kw)
    require(oA.tobytes() == oA2.tobytes() and of.tobytes() == of2.tobytes(), "same seed gives different samples")
    if case.get("vertex"):
        for i in range(N):
            g = int(np.argmax(f[i]))
            require(np.array_equal(oA[i], np.broadcast_to(A[i, g], oA[i].shape)) and np.all(of[i] == 1), f"snapshot {i}: the grain holding all the volume is not the only one drawn")
    nonuniform = bool(np.abs(f - 1.0 / M).max() > 1e-9)
    return {
        "nontrivial": bool((M >= 3 and nonuniform) or has_zero),
        "labels": [f"N{N}", "default_n" if ns is None else "given_n", "zeros" if has_zero else "nozeros", "dup" if case["dup"] else "nodup"] + (["int_vertex"] if case.get("vertex") else []),
        "residual": 0.0,
    }


def dist_case():
    return st.fixed_dictionaries(
        {
            "M": st.integers(2, 40),
            "seed_tex": gen.small_seed,
            "vol": gen.volume_spec(),
            "n_samples": st.integers(20000, 100000),
            "seed": st.integers(0, 2**32 - 1),
        }
    )


def check_distribution(case):
    M = case["M"]
    rng = np.random.default_rng(case["seed_tex"])
    A = gen._random_rotations(rng, M)[None]
    f = gen.volumes(case["vol"], M)[None]
    n = case["n_samples"]
    oA, of = sut(S.resample_orientations, A, f, n_samples=n, seed=case["seed"])
    # identify grains through their (distinct, random) orientation matrices
    key = {A[0, g].tobytes(): g for g in range(M)}
    counts = np.zeros(M)
    idx = np.array([key.get(oA[0, k].tobytes(), -1) for k in range(n)])
    require(np.all(idx >= 0), "resampled orientation is not an input grain")
    counts = np.bincount(idx, minlength=M).astype(float)
    p = f[0]
    worst = 0.0
    for g in range(M):
        if p[g] == 0.0:
            require(counts[g] == 0, f"zero-volume grain {g} drawn {int(counts[g])} times")
            continue
        sd = math.sqrt(n * p[g] * (1 - p[g]))
        if sd == 0:
            require(counts[g] == n, "grain with all the volume not always drawn")
            continue
        z = abs(counts[g] - n * p[g]) / max(sd, 1.0)
        require(z <= 7.0, f"grain {g} with volume fraction {p[g]:.6f} drawn {int(counts[g])} of {n} times (z = {z:.1f}): not proportional to volume", z)
        worst = max(worst, z)
    # sample statistic converges to the volume-weighted statistic
    stat_w = float(np.sum(p * A[0, :, 0, 0]))
    stat_s = float(np.mean(oA[0, :, 0, 0]))
    require(abs(stat_w - stat_s) <= 7.0 / math.sqrt(n) + 1e-12, f"sample mean {stat_s:.5f} does not converge to the volume-weighted mean {stat_w:.5f}")
    return {"nontrivial": bool(np.abs(p - 1.0 / M).max() > 1e-6 and M >= 3), "labels": [case["vol"]["k"]], "residual": worst / 7.0}


BAD_SHAPES = [
    # (orientations shape, fractions shape) with N=2, M=5 as the consistent reference
    ((2, 5, 3, 3), (2, 4)),
    ((2, 5, 3, 3), (3, 5)),
    ((2, 5, 3, 3), (5,)),
    ((2, 5, 3, 3), (2, 5, 1)),
    ((5, 3, 3), (2, 5)),
    ((5, 3, 3), (5,)),
    ((2, 5, 3), (2, 5)),
    ((2, 5, 9), (2, 5)),
    ((2, 5, 3, 3, 1), (2, 5)),
    ((2, 5, 2, 3), (2, 5)),
    ((2, 5, 3, 2), (2, 5)),
    ((2, 5, 2, 2), (2, 5)),
    ((2, 5, 1, 3), (2, 5)),
    ((2, 5, 3, 1), (2, 5)),
    ((2, 5, 1, 1), (2, 5)),
    ((2, 5, 4, 4), (2, 5)),
    ((2, 5, 3, 4), (2, 5)),
    ((2, 5, 4, 3), (2, 5)),
    ((2, 4, 3, 3), (2, 5)),
    ((3, 5, 3, 3), (2, 5)),
    ((1, 5, 3, 3), (2, 5)),
    ((2, 1, 3, 3), (2, 5)),
]


def check_malformed(case):
    so, sf = BAD_SHAPES[case["i"]]
    rng = np.random.default_rng(case["seed"])
    o = rng.uniform(-1, 1, size=so)
    f = rng.uniform(0.1, 1, size=sf)
    f = f / f.sum(axis=-1, keepdims=True) if f.ndim >= 1 else f
    kw = {} if case["n_samples"] is None else {"n_samples": case["n_samples"]}
    try:
        S.resample_orientations(o, f, seed=1, **kw)
    except ValueError:
        return {"nontrivial": True, "labels": [f"{so}/{sf}"], "residual": 0.0}
    except Exception as e:  # noqa: BLE001
        raise Violation(f"shapes {so}/{sf}: raised {type(e).__name__} instead of ValueError: {e}")
    raise Violation(f"inconsistent shapes orientations {so} / fractions {sf} were accepted")


def check_zero_many_draws(case):
    """4 snapshots x 1e6 samples of a texture with zero-volume grains: 4e6 draws per
    evaluation, so that a draw landing exactly on the lower end of the volume axis (where the
    zero-volume grains sit) would be seen if it were likelier than double precision makes it."""
    M = case["M"]
    rng = np.random.default_rng(case["seed_tex"])
    A = np.stack([gen._random_rotations(rng, M) for _ in range(4)])
    f = rng.uniform(0.1, 1.0, size=(4, M))
    nz = max(1, min(M - 1, case["n_zero"]))
    for i in range(4):
        f[i, rng.permutation(M)[:nz]] = 0.0
    f /= f.sum(axis=1, keepdims=True)
    n = 1_000_000
    oA, of = sut(S.resample_orientations, A, f, n_samples=n, seed=case["seed"])
    require(oA.shape == (4, n, 3, 3) and of.shape == (4, n), f"output shapes {oA.shape}/{of.shape}")
    for i in range(4):
        bad = int(np.count_nonzero(of[i] == 0.0))
        require(bad == 0, f"snapshot {i}: a zero-volume grain was drawn {bad} time(s) in {n} samples")
        pool = set(zip(A[i, :, 0, 0].tolist(), f[i].tolist()))
        got = set(zip(oA[i, :, 0, 0].tolist(), of[i].tolist()))
        require(got <= pool, f"snapshot {i}: a resampled (orientation, volume) pair is not an input pair")
        # every grain with volume is drawn in proportion (z bound 7)
        for g in range(M):
            if f[i, g] > 0:
                c = int(np.count_nonzero(of[i] == f[i, g]))
                dup = int(np.count_nonzero(f[i] == f[i, g]))
                p = f[i, g] * dup
                z = abs(c - n * p) / max(math.sqrt(n * p * (1 - p)), 1.0)
                require(z <= 7.0, f"snapshot {i}: grain with volume {f[i, g]:.6f} drawn {c} of {n} times (z = {z:.1f})", z)
    del oA, of
    return {"nontrivial": True, "labels": [f"M{M}", f"zeros{nz}"], "residual": 0.0}


def shape_case():
    """Shape pairs from a grammar instead of a list: ranks 0..5 with dimensions biased towards
    3 (so that grain counts and snapshot counts collide with the trailing 3x3), plus exact
    consistent pairs."""
    dim = st.sampled_from([3, 3, 3, 1, 2, 4, 5, 9])
    return st.fixed_dictionaries(
        {
            "so": st.lists(dim, min_size=0, max_size=5),
            "sf": st.lists(dim, min_size=0, max_size=3),
            "tie": st.sampled_from(["none", "none", "prefix2", "prefix1", "consistent"]),
            "seed": gen.small_seed,
            "n_samples": st.one_of(st.none(), st.integers(1, 5), st.just(3)),
        }
    )


def check_shapes(case):
    so, sf = list(case["so"]), list(case["sf"])
    if case["tie"] == "prefix2" and len(so) >= 2:
        sf = so[:2]  # fractions agree with the two leading dimensions, whatever follows
    elif case["tie"] == "prefix1" and len(so) >= 1:
        sf = so[:1] + sf[1:2]
    elif case["tie"] == "consistent":
        so = (so + [3, 3])[:2] + [3, 3]
        sf = so[:2]
    so, sf = tuple(so), tuple(sf)
    consistent = len(so) == 4 and so[2:] == (3, 3) and sf == so[:2]
    rng = np.random.default_rng(case["seed"])
    o = rng.uniform(-1, 1, size=so)
    f = rng.uniform(0.1, 1, size=sf)
    if f.ndim >= 1:
        f = f / f.sum(axis=-1, keepdims=True)
    kw = {} if case["n_samples"] is None else {"n_samples": case["n_samples"]}
    label = "consistent" if consistent else f"rank{len(so)}/{len(sf)}"
    try:
        oA, of = S.resample_orientations(o, f, seed=1, **kw)
    except ValueError:
        require(not consistent, f"consistent shapes {so}/{sf} were rejected with ValueError")
        return {"nontrivial": True, "labels": [label, "threes" if so.count(3) >= 3 else "few_threes"], "residual": 0.0}
    except Exception as e:  # noqa: BLE001
        raise Violation(f"shapes {so}/{sf}: raised {type(e).__name__} instead of ValueError: {e}")
    require(consistent, f"inconsistent shapes orientations {so} / fractions {sf} were accepted (n_samples={case['n_samples']})")
    n_out = so[1] if case["n_samples"] is None else case["n_samples"]
    require(oA.shape == (so[0], n_out, 3, 3) and of.shape == (so[0], n_out), f"output shapes {oA.shape}/{of.shape} for input {so}/{sf}")
    return {"nontrivial": True, "labels": [label], "residual": 0.0}


ORACLES = [
    Oracle(
        "zero_volume_many_draws",
        st.fixed_dictionaries({"M": st.integers(2, 6), "n_zero": st.integers(1, 4), "seed_tex": gen.small_seed, "seed": st.integers(0, 2**32 - 1)}),
        check_zero_many_draws,
        quick=16,
        thorough=64,
    ),
    Oracle(
        "generated_shapes",
        shape_case(),
        check_shapes,
        classify=lambda c: "any",
        quick=1500,
        thorough=20000,
    ),
    Oracle("membership_shape_seed", stack_case(), check_membership, quick=250, thorough=4000),
    Oracle("distribution", dist_case(), check_distribution, quick=40, thorough=600),
    Oracle(
        "malformed_shapes",
        st.fixed_dictionaries(
            {"i": st.integers(0, len(BAD_SHAPES) - 1), "seed": gen.small_seed, "n_samples": st.one_of(st.none(), st.integers(1, 50))}
        ),
        check_malformed,
        classify=lambda c: str(BAD_SHAPES[c["i"]][0][2:]) if BAD_SHAPES[c["i"]][0][:2] == (2, 5) and len(BAD_SHAPES[c["i"]][0]) == 4 and BAD_SHAPES[c["i"]][1] == (2, 5) else "rank_or_count",
        quick=200,
        thorough=600,
    ),
    Oracle(
        "large_sample",
        st.builds(lambda c, n: dict(c, n_samples=n), stack_case(50), st.integers(200000, 1000000)),
        check_membership,
        quick=0,
        thorough=4,
    ),
]
