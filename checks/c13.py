"""C13 — eigenvalue-based texture and strain diagnostics are objective."""

import math

import numpy as np
from hypothesis import strategies as st

import pydrex
from pydrex import diagnostics as D
from pydrex import utils as _utils

from vlib import gen
from vlib.harness import Oracle, Skip, Violation, require, sut

RULE = (
    "Texture cases: orientation sets of 1..300 grains (quick; up to 1e4 thorough) from the "
    "families explicit (generic/axis-aligned/near-aligned), random, clustered, girdle, "
    "single-orientation; crystal axis a/b/c; a frame rotation Q, a permutation seed and "
    "per-grain lattice two-folds. Strain cases: deformation gradients F = R.S "
    "(principal stretches in [1e-3,1e3], optionally det<0 excluded), raw invertible 3x3 "
    "matrices with condition number <=1e6, simple shears I + 2e e_i x e_j, and rotations Q. "
    "Also infinitesimal strains R.V.diag(1+10^u d).V^T and I+-10^u e_i x e_j with u in [-10,-2] "
    "(tolerances follow the measured conditioning: 1e-12 S0 for the stretch, 1e-13/separation "
    "for the axis). "
    "Non-trivial: >=3 grains that are not all identical and Q >=5 degrees from every "
    "axis-aligned rotation (texture); non-symmetric F with separated principal stretches "
    "(strain); distinct = distinct canonical JSON."
)
ASSUMPTIONS = [
    "axes are compared up to sign and only when the relevant eigenvalue gap exceeds 1e-6 relative (excluded cases are counted)",
    "coaxial index is only evaluated when P+G > 1e-6 for both axes, as the statement allows",
]

AXES = ["a", "b", "c"]


def tex_case(max_n=300):
    return st.fixed_dictionaries(
        {
            "tex": gen.texture_spec(1, max_n, 10),
            "axis": st.sampled_from(AXES),
            "axis2": st.sampled_from(AXES),
            "Q": st.one_of(gen.generic_rotation_spec(), gen.rotation_spec()),
            "perm": gen.small_seed,
            "ops": st.lists(st.integers(-1, 2), min_size=1, max_size=12),
        }
    )


def _scatter(A, row):
    v = A[:, row, :]
    return v.T @ v


def _variants(case):
    A = gen.orientations(case["tex"])
    # same values, other memory layouts (Fortran order / component-first view) for some cases
    lay = case["perm"] % 3
    if lay == 1:
        A = np.asfortranarray(A)
    elif lay == 2:
        A = np.moveaxis(np.ascontiguousarray(np.moveaxis(A, 0, -1)), -1, 0)
    n = len(A)
    Q = gen.rot(case["Q"])
    rng = np.random.default_rng(case["perm"])
    perm = rng.permutation(n)
    ops = case["ops"]
    A_sym = A.copy()
    for g in range(n):
        op = ops[g % len(ops)]
        if op >= 0:
            A_sym[g] = gen.TWOFOLDS[op] @ A[g]
    return A, {"rotated": A @ Q.T, "permuted": A[perm], "relabelled": A_sym}, Q


def check_pgr(case):
    A, var, Q = _variants(case)
    n = len(A)
    axis = case["axis"]
    row = AXES.index(axis)
    A_before = A.copy()
    P, G, R = sut(D.symmetry_pgr, A, axis=axis)
    require(np.array_equal(A, A_before), "symmetry_pgr modified the orientation array")
    for name, v in (("P", P), ("G", G), ("R", R)):
        require(np.isfinite(v) and -1e-12 <= v <= 1 + 1e-12, f"{name} = {v!r} outside [0,1]")
    require(abs(P + G + R - 1) <= 1e-12, f"P+G+R = {P + G + R!r} != 1")
    ev = np.sort(np.linalg.eigvalsh(_scatter(A, row)))[::-1]
    N = ev.sum()
    ref = ((ev[0] - ev[1]) / N, 2 * (ev[1] - ev[2]) / N, 3 * ev[2] / N)
    e = max(abs(P - ref[0]), abs(G - ref[1]), abs(R - ref[2]))
    require(e <= 1e-10, f"P,G,R = {(P, G, R)} differ from the eigenvalues of the axis scatter matrix {ref}", e)
    worst = e
    for name, Av in var.items():
        Pv, Gv, Rv = sut(D.symmetry_pgr, Av, axis=axis)
        e = max(abs(P - Pv), abs(G - Gv), abs(R - Rv))
        require(e <= 1e-10, f"P,G,R change for the {name} texture by {e:.3e}", e)
        worst = max(worst, e)
    # coaxial index
    ax2 = case["axis2"]
    P2, G2, _ = sut(D.symmetry_pgr, A, axis=ax2)
    labels = [case["tex"]["fam"], axis]
    if P + G > 1e-6 and P2 + G2 > 1e-6:
        ci = sut(D.coaxial_index, A, axis, ax2)
        require(np.isfinite(ci) and -1e-12 <= ci <= 1 + 1e-12, f"coaxial index {ci!r} outside [0,1]")
        refci = 0.5 * (2 - P / (G + P) - G2 / (G2 + P2))
        require(abs(ci - refci) <= 1e-10, f"coaxial index {ci!r} != {refci!r}")
        for name, Av in var.items():
            civ = sut(D.coaxial_index, Av, axis, ax2)
            # P/(P+G) is ill-conditioned when P+G is tiny: scale the tolerance
            tol = 1e-10 / min(P + G, P2 + G2)
            require(abs(ci - civ) <= tol, f"coaxial index changes for the {name} texture by {abs(ci - civ):.3e}", abs(ci - civ))
        labels.append("coaxial")
    distinct = bool(np.abs(A - A[0]).max() > 1e-9)
    return {"nontrivial": bool(n >= 3 and distinct and gen.angle_from_axis24(Q) >= 5.0), "labels": labels, "residual": worst}


def check_bingham(case):
    A, var, Q = _variants(case)
    n = len(A)
    axis = case["axis"]
    row = AXES.index(axis)
    v = sut(D.bingham_average, A, axis=axis)
    require(v.shape == (3,) and np.all(np.isfinite(v)) and abs(np.linalg.norm(v) - 1) <= 1e-12, f"Bingham mean {v} is not a unit vector")
    w, E = np.linalg.eigh(_scatter(A, row))
    if (w[2] - w[1]) <= 1e-6 * n:
        raise Skip("principal eigenvalue of the scatter matrix not separated")
    u = E[:, 2]
    e = min(np.abs(v - u).max(), np.abs(v + u).max())
    require(e <= 1e-9 * n / (w[2] - w[1]), f"Bingham mean {v} is not the principal eigenvector {u} of the axis scatter matrix", e)
    worst = e
    tol = 1e-9 * n / (w[2] - w[1])
    for name, Av in var.items():
        vv = sut(D.bingham_average, Av, axis=axis)
        target = Q @ v if name == "rotated" else v
        e = min(np.abs(vv - target).max(), np.abs(vv + target).max())
        require(e <= tol, f"Bingham mean of the {name} texture is {vv}, expected +-{target}", e)
        worst = max(worst, e)
    distinct = bool(np.abs(A - A[0]).max() > 1e-9)
    return {
        "nontrivial": bool(n >= 3 and distinct and gen.angle_from_axis24(Q) >= 5.0),
        "labels": [case["tex"]["fam"], axis],
        "residual": worst,
    }


# finite strain -----------------------------------------------------------------------

F_spec = st.one_of(
    st.fixed_dictionaries(
        {
            "k": st.just("RS"),
            "R": gen.rotation_spec(),
            "V": gen.rotation_spec(),
            "e": st.lists(st.floats(-3.0, 3.0), min_size=3, max_size=3),  # log10 stretches
        }
    ),
    st.fixed_dictionaries({"k": st.just("raw"), "a": st.lists(st.floats(-3, 3), min_size=9, max_size=9)}),
    st.fixed_dictionaries({"k": st.just("shear"), "i": st.integers(0, 2), "j": st.integers(0, 2), "g": st.one_of(st.floats(-20, 20), st.integers(-20, 20).map(float))}),
    # infinitesimal strain: F = R.V.diag(1 + 10^u d).V^T and I + 10^u e_i (x) e_j
    st.fixed_dictionaries(
        {
            "k": st.just("inf"),
            "R": gen.rotation_spec(),
            "V": gen.rotation_spec(),
            "d": st.lists(st.floats(-1.0, 1.0).map(lambda v: round(v, 6)), min_size=3, max_size=3),
            "u": st.floats(-10.0, -2.0).map(lambda v: round(v, 3)),
            "rigid": st.booleans(),
        }
    ),
    st.fixed_dictionaries(
        {
            "k": st.just("tinyshear"),
            "i": st.integers(0, 2),
            "j": st.integers(0, 2),
            "u": st.floats(-10.0, -2.0).map(lambda v: round(v, 3)),
            "sgn": st.sampled_from([-1.0, 1.0]),
        }
    ),
)


def F_from(spec):
    if spec["k"] == "RS":
        V = gen.rot(spec["V"])
        return gen.rot(spec["R"]) @ (V @ np.diag(10.0 ** np.asarray(spec["e"])) @ V.T)
    if spec["k"] == "raw":
        return np.asarray(spec["a"], dtype=float).reshape(3, 3)
    if spec["k"] == "inf":
        V = gen.rot(spec["V"])
        S = V @ np.diag(1.0 + 10.0 ** spec["u"] * np.asarray(spec["d"])) @ V.T
        return gen.rot(spec["R"]) @ S if spec["rigid"] else S
    F = np.eye(3)
    if spec["i"] != spec["j"]:
        F[spec["i"], spec["j"]] = spec["g"] if spec["k"] == "shear" else spec["sgn"] * 10.0 ** spec["u"]
    if spec["k"] == "shear" and float(spec["g"]).is_integer():
        F = F.astype(np.int64)  # a whole-number shear typed in as [[1, 3, 0], [0, 1, 0], [0, 0, 1]]
    return F


def check_finite_strain(case):
    F = F_from(case["F"])
    sv = np.linalg.svd(F, compute_uv=False)
    if sv[-1] <= 1e-6 * sv[0]:
        raise Skip("F not invertible / condition number > 1e6")
    Q = gen.rot(case["Q"])
    F_before = F.copy()
    s, ax = sut(D.finite_strain, F)
    require(np.array_equal(F, F_before), "finite_strain modified the deformation gradient")
    U, S, _ = np.linalg.svd(F)
    # measured accuracy of the eigen-decomposition route: 2e-14 S0 for the stretch and
    # 1.1e-15/sep for the axis (200000 random F, condition numbers up to 1e6, strains down
    # to 1e-12); the bounds below leave a factor 50-100
    e0 = abs(s - (S[0] - 1)) / S[0]
    require(np.isfinite(s) and e0 <= 1e-12, f"finite strain {s!r} != largest principal stretch - 1 = {S[0] - 1!r}", e0)
    require(ax.shape == (3,) and abs(np.linalg.norm(ax) - 1) <= 1e-9, f"strain axis {ax} is not a unit vector")
    sep = (S[0] - S[1]) / S[0]
    labels = [case["F"]["k"]]
    worst = e0 * 1e3
    if sep > 1e-10:
        tol = 1e-13 / sep + 1e-12
        labels.append("strain<1e-5" if S[0] - 1 < 1e-5 and S[2] > 1 - 1e-5 else "finite")
        e = min(np.abs(ax - U[:, 0]).max(), np.abs(ax + U[:, 0]).max())
        require(e <= tol, f"strain axis {ax} is not the long axis +-{U[:, 0]} of the strain ellipsoid", e)
        worst = max(worst, e)
        # prior rigid rotation F -> F.Q: unchanged
        s1, ax1 = sut(D.finite_strain, F @ Q)
        require(abs(s1 - s) <= 1e-12 * S[0], f"finite strain changes under F -> F.Q: {s!r} -> {s1!r}")
        e = min(np.abs(ax1 - ax).max(), np.abs(ax1 + ax).max())
        require(e <= tol, f"strain axis changes under a prior rigid rotation F -> F.Q by {e:.3e}", e)
        # subsequent rotation F -> Q.F: co-rotates
        s2, ax2 = sut(D.finite_strain, Q @ F)
        require(abs(s2 - s) <= 1e-12 * S[0], f"finite strain changes under F -> Q.F: {s!r} -> {s2!r}")
        e = min(np.abs(ax2 - Q @ ax).max(), np.abs(ax2 + Q @ ax).max())
        require(e <= tol, f"strain axis does not co-rotate under F -> Q.F (|diff| = {e:.3e})", e)
        labels.append("axis_checked")
    return {
        "nontrivial": bool(np.abs(F - F.T).max() > 1e-12 and sep > 1e-10 and gen.angle_from_axis24(Q) >= 5.0),
        "labels": labels,
        "residual": worst,
    }


def check_simple_shear_angle(case):
    """F = I + 2 eps e_j (x) e_i (velocity along j, gradient along i): the long axis lies in
    the i-j plane at angle_fse_simpleshear(eps) anticlockwise from the gradient axis i."""
    eps = case["eps"]
    if eps < 1e-9:
        raise Skip("no strain: ellipsoid is a sphere, axis undefined")
    atol = 1e-6 + math.degrees(1e-13 / eps)  # axis conditioning ~ eps_machine / strain
    i, j = case["ij"]
    F = np.eye(3)
    F[j, i] = 2 * eps
    s, ax = sut(D.finite_strain, F)
    k = 3 - i - j
    require(abs(ax[k]) <= 1e-9 + 1e-13 / eps, f"strain axis of a simple shear leaves the shear plane: {ax}")
    ang = math.degrees(math.atan2(ax[j], ax[i])) % 180.0
    ref = float(sut(_utils.angle_fse_simpleshear, eps)) % 180.0
    d = abs(ang - ref)
    d = min(d, 180 - d)
    require(d <= atol, f"finite-strain axis angle {ang:.9f} deg != closed-form helper {ref:.9f} deg for strain {eps}", d)
    # closed form from first principles: tan(2 theta) = -2/gamma' ...  use SVD as a third opinion
    U = np.linalg.svd(F)[0][:, 0]
    ang2 = math.degrees(math.atan2(U[j], U[i])) % 180.0
    d2 = min(abs(ang2 - ref), 180 - abs(ang2 - ref))
    require(d2 <= atol, f"closed-form helper {ref:.9f} deg != SVD long-axis angle {ang2:.9f} deg for strain {eps}", d2)
    # stretch: lambda_max = eps + sqrt(eps^2+1)
    lam = eps + math.sqrt(eps * eps + 1)
    require(abs(s - (lam - 1)) <= 1e-12 * lam, f"finite strain {s!r} != eps+sqrt(eps^2+1)-1 = {lam - 1!r}")
    return {"nontrivial": eps > 1e-3, "labels": [f"ij{i}{j}", "eps<1e-5" if eps < 1e-5 else "eps>=1e-5"], "residual": max(d, d2) / atol}


ORACLES = [
    Oracle("pgr_objective", tex_case(300), check_pgr, quick=700, thorough=4000),
    Oracle("bingham_mean", tex_case(300), check_bingham, quick=500, thorough=3000),
    Oracle("pgr_large", tex_case(10000), check_pgr, quick=0, thorough=150),
    Oracle(
        "finite_strain",
        st.fixed_dictionaries({"F": F_spec, "Q": st.one_of(gen.generic_rotation_spec(), gen.rotation_spec())}),
        check_finite_strain,
        quick=600,
        thorough=4000,
    ),
    Oracle(
        "simple_shear_angle",
        st.fixed_dictionaries(
            {
                "eps": st.one_of(st.floats(0.0, 10.0), st.floats(0.0, 1e-3), st.floats(10.0, 1e3), st.floats(-9.0, -3.0).map(lambda u: 10.0 ** round(u, 3))),
                "ij": st.sampled_from([(0, 1), (1, 0), (0, 2), (2, 0), (1, 2), (2, 1)]),
            }
        ),
        check_simple_shear_angle,
        quick=300,
        thorough=2000,
    ),
]
