"""C04 — frame indifference and crystal-symmetry invariance of rates and textures."""

import numpy as np
from hypothesis import strategies as st

from vlib import drexcase, gen, hist, ref_drex
from vlib.harness import Oracle, Rejected, Skip, Violation, require, sut

RULE = (
    "Rate level: C02-style solver inputs plus a generated proper rotation Q (generic / "
    "axis-aligned / near-aligned) and, for the symmetry oracle, a generated subset of "
    "grains each with one of the three lattice two-folds (sign flip of two rows). Texture "
    "level: paired Mineral histories (2..12 grains, 1..3 updates, T<=1, dislocation-type "
    "regimes) run in the original and in the rotated frame (L'=Q L(t,Q^T x)Q^T, x'=Qx, "
    "F0'=Q F0 Q^T, A0'=A0 Q^T) with rtol=1e-10/atol=1e-12 passed through the documented "
    "kwargs, and symmetry-relabelled histories, both with rtol=1e-10/atol=1e-12 passed through the documented kwargs. Excluded (counted): "
    "exact inac/min activity ties, sliding-threshold near-ties (1e-6 relative, seen by "
    "observing apply_gbs). Non-trivial: Q at least 5 degrees from every axis-aligned "
    "rotation (frame oracles); flipped subset non-empty and not all grains with the same "
    "operation (symmetry oracles); distinct = distinct canonical JSON of the case."
)
ASSUMPTIONS = [
    "LSODA's default absolute tolerance is component-wise and hence frame dependent: the integrated frame-rotation oracle passes rtol=1e-10, atol=1e-12 (documented pass-through) to both runs and compares at 1e-6",
    "grains on which no slip system resolves (max activity <1e-9) are compared too: the property makes no exception for them",
]


def rate_frame_case():
    return st.fixed_dictionaries({"c": drexcase.rate_case(16, 8), "Q": st.one_of(gen.generic_rotation_spec(), gen.rotation_spec())})


def check_rate_frame(case):
    x = drexcase.expand(case["c"])
    if x is None:
        raise Skip("zero strain rate")
    Q = gen.rot(case["Q"])
    _, _, gs, _ = ref_drex.derivatives(
        x["regime"], x["phase"], x["fabric"], x["A"], x["f"], x["L"], x["p"], x["n"], x["lam"], x["M"], x["phi"]
    )
    cond = drexcase.conditioning(x, gs)
    if cond["tie"]:
        raise Skip("activity tie")
    Adot, fdot = drexcase.call(x)
    xr = dict(x, A=x["A"] @ Q.T, L=Q @ x["L"] @ Q.T, D=Q @ x["D"] @ Q.T)
    # keep D exactly symmetric as callers do
    xr["D"] = (xr["D"] + xr["D"].T) / 2
    Adot_r, fdot_r = drexcase.call(xr)
    lscale = 1.0 + np.abs(x["L"]).max()
    eA = float(np.abs(Adot_r - Adot @ Q.T).max())
    require(eA <= 1e-10 * lscale, f"orientation rates are not frame indifferent: |Adot' - Adot.Q^T| = {eA:.3e} ({x['fname']})", eA)
    res = eA
    labels = [x["fname"], case["Q"]["k"], "noslip" if cond["noslip"] else "slip"]
    if cond["gamma0"] == 0 and cond["noslip"] == 0:
        ef = float(np.abs(fdot_r - fdot).max())
        require(ef <= 1e-9 * (1 + x["M"]), f"volume rates change under a frame rotation by {ef:.3e} ({x['fname']})", ef)
        res = max(res, ef / (1 + x["M"]))
        labels.append("fdot_compared")
    return {"nontrivial": gen.angle_from_axis24(Q) >= 5.0, "labels": labels, "residual": res}


def rate_sym_case():
    return st.fixed_dictionaries(
        {"c": drexcase.rate_case(16, 8), "ops": st.lists(st.integers(-1, 2), min_size=1, max_size=16)}
    )


def _apply_ops(A, ops):
    out = A.copy()
    used = []
    for g in range(len(A)):
        op = ops[g % len(ops)]
        used.append(op)
        if op >= 0:
            out[g] = gen.TWOFOLDS[op] @ A[g]
    return out, used


def check_rate_symmetry(case):
    x = drexcase.expand(case["c"])
    if x is None:
        raise Skip("zero strain rate")
    A2, used = _apply_ops(x["A"], case["ops"])
    Adot, fdot = drexcase.call(x)
    Adot2, fdot2 = drexcase.call(dict(x, A=A2))
    expect = Adot.copy()
    for g, op in enumerate(used):
        if op >= 0:
            expect[g] = gen.TWOFOLDS[op] @ Adot[g]
    lscale = 1.0 + np.abs(x["L"]).max()
    eA = float(np.abs(Adot2 - expect).max())
    require(eA <= 1e-13 * lscale, f"symmetry-equivalent orientation gives a non-equivalent rate: {eA:.3e} ({x['fname']})", eA)
    ef = float(np.abs(fdot2 - fdot).max())
    require(ef <= 1e-12 * (1 + x["M"]), f"volume rates change under a lattice two-fold: {ef:.3e} ({x['fname']})", ef)
    flipped = [u for u in used if u >= 0]
    return {
        "nontrivial": bool(flipped) and not (len(flipped) == len(used) and len(set(flipped)) == 1),
        "labels": [x["fname"]],
        "residual": max(eA, ef / (1 + x["M"])),
    }


# texture level ------------------------------------------------------------------------


def tex_case():
    return st.fixed_dictionaries(
        {
            "min": hist.mineral_spec(2, 12, regimes=(4, 6), allow_default=False),
            "par": hist.param_spec(),
            "F0": hist.f0_spec(),
            "flow": hist.flow_spec(1.0),
            "cuts": hist.cuts_spec(3),
            "Q": st.one_of(gen.generic_rotation_spec(), gen.rotation_spec()),
            "ops": st.lists(st.integers(-1, 2), min_size=1, max_size=12),
        }
    )


def _run(case, A0, f0, F0, flow, kw, record=None):
    from pydrex import core as _core
    from pydrex import minerals as _minerals

    ms = case["min"]
    phase, fabric, _ = gen.FABRICS[ms["pf"]]
    m = sut(
        _minerals.Mineral,
        phase=_core.MineralPhase(phase),
        fabric=_core.MineralFabric(fabric),
        regime=_core.DeformationRegime(ms["regime"]),
        n_grains=len(A0),
        fractions_init=f0.copy(),
        orientations_init=A0.copy(),
    )
    params = hist.params_dict(case["par"], (phase,), (1.0,), len(A0))
    F = F0.copy()
    taus = hist.tau_points(flow.T, case["cuts"])
    for ta, tb in zip(taus[:-1], taus[1:]):
        F = hist.update(m, params, F, flow, ta, tb, **kw)
    return m, F


def _stagnant_gamma(case, A0):
    """True if some grain starts with a vanishing slip rate on its softest system (|gamma| <
    1e-6, e.g. an aligned grain in coaxial strain).  The strain energy ~ |gamma|^(p/n) is not
    Lipschitz there: in one frame gamma is exactly 0, in the rotated frame it is rounding
    noise, and the volume rates differ by M*eps^(p/n) ~ 1e-6..1e-3.  The model itself is
    discontinuous at such fixed points, so they are excluded from the integrated comparison
    (the rate-level oracles treat them explicitly)."""
    ms = case["min"]
    phase, fabric, _ = gen.FABRICS[ms["pf"]]
    flow = hist.Flow(case["flow"])
    L, _, s = gen.normalise_velgrad(flow.Lhat(0.0))
    if L is None:
        return False
    for A in A0:
        g = ref_drex.grain(phase, fabric, A, L, case["par"]["p"], case["par"]["n"], case["par"]["lam"])
        if abs(g["gamma"]) < 1e-6:
            return True
    return False


def check_texture_frame(case):
    ms = case["min"]
    A0 = gen.orientations(ms["tex"])
    if case["par"]["M"] > 0 and _stagnant_gamma(case, A0):
        raise Skip("grain with vanishing slip rate (energy not Lipschitz)")
    f0 = gen.volumes(ms["vol"], len(A0))
    F0 = hist.f0(case["F0"])
    Q = gen.rot(case["Q"])
    kw = {"rtol": 1e-10, "atol": 1e-12}
    with hist.GbsRecorder() as rec:
        m1, F1 = _run(case, A0, f0, F0, hist.Flow(case["flow"]), kw)
        m2, F2 = _run(case, A0 @ Q.T, f0, Q @ F0 @ Q.T, hist.Flow(case["flow"], frame=Q), kw)
    if case["par"]["chi"] > 0 and rec.min_margin < 1e-6:
        raise Skip("grain within 1e-6 of the sliding threshold")
    worst = 0.0
    for k in range(len(m1.orientations)):
        eA = float(np.abs(m2.orientations[k] - m1.orientations[k] @ Q.T).max())
        ef = float(np.abs(m2.fractions[k] - m1.fractions[k]).max())
        require(eA <= 1e-6, f"integrated texture not frame indifferent at snapshot {k}: |A' - A.Q^T| = {eA:.3e}", eA)
        require(ef <= 1e-6, f"volume fractions change under frame rotation at snapshot {k}: {ef:.3e}", ef)
        worst = max(worst, eA, ef)
    eF = float(np.abs(Q.T @ F2 @ Q - F1).max() / max(np.abs(F1).max(), 1e-300))
    require(eF <= 1e-6, f"rotated deformation gradient differs: {eF:.3e}", eF)
    return {
        "nontrivial": gen.angle_from_axis24(Q) >= 5.0,
        "labels": [gen.FABRICS[ms["pf"]][2], "chi>0" if case["par"]["chi"] > 0 else "chi=0", f"updates{len(case['cuts']) + 1}"],
        "residual": max(worst, eF) / 1e-6,
    }


def check_texture_symmetry(case):
    ms = case["min"]
    A0 = gen.orientations(ms["tex"])
    f0 = gen.volumes(ms["vol"], len(A0))
    F0 = hist.f0(case["F0"])
    A0s, used = _apply_ops(A0, case["ops"])
    flow = hist.Flow(case["flow"])
    # LSODA's finite-difference Jacobian perturbs y by +r regardless of sign(y), so even the
    # exactly sign-symmetric right-hand side integrates to results that differ at solver
    # tolerance; both runs therefore use rtol=1e-10/atol=1e-12 and are compared at 1e-6
    kw = {"rtol": 1e-10, "atol": 1e-12}
    m1, F1 = _run(case, A0, f0, F0, flow, kw)
    m2, F2 = _run(case, A0s, f0, F0, hist.Flow(case["flow"]), kw)
    worst = 0.0
    for k in range(len(m1.orientations)):
        expect = m1.orientations[k].copy()
        for g, op in enumerate(used):
            if op >= 0:
                expect[g] = gen.TWOFOLDS[op] @ expect[g]
        eA = float(np.abs(m2.orientations[k] - expect).max())
        ef = float(np.abs(m2.fractions[k] - m1.fractions[k]).max())
        require(eA <= 1e-6, f"symmetry-relabelled grain evolves to a non-equivalent orientation (snapshot {k}): {eA:.3e}", eA)
        require(ef <= 1e-6, f"volume fractions change under symmetry relabelling (snapshot {k}): {ef:.3e}", ef)
        worst = max(worst, eA, ef)
    require(float(np.abs(F1 - F2).max()) <= 1e-6 * max(1.0, np.abs(F1).max()), "F changes under symmetry relabelling")
    flipped = [u for u in used if u >= 0]
    return {
        "nontrivial": bool(flipped) and not (len(flipped) == len(used) and len(set(flipped)) == 1),
        "labels": [gen.FABRICS[ms["pf"]][2]],
        "residual": worst / 1e-6,
    }


def classify_rate(case):
    return gen.FABRICS[case["c"]["par"]["pf"]][2]


def classify_tex(case):
    return gen.FABRICS[case["min"]["pf"]][2]


SHARDS = {"quick": 8, "thorough": 16}
ORACLES = [
    Oracle("rate_frame_rotation", rate_frame_case(), check_rate_frame, classify=classify_rate, quick=1200, thorough=10000),
    Oracle("rate_symmetry", rate_sym_case(), check_rate_symmetry, classify=classify_rate, quick=800, thorough=8000),
    Oracle("texture_frame_rotation", tex_case(), check_texture_frame, classify=classify_tex, quick=64, thorough=300, shrink_seconds=180),
    Oracle("texture_symmetry", tex_case(), check_texture_symmetry, classify=classify_tex, quick=64, thorough=300, shrink_seconds=180),
]
