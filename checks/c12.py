"""C12 — elastic symmetry decomposition is correct and frame-independent."""

import numpy as np
from hypothesis import strategies as st

import pydrex
from pydrex import core as _core
from pydrex import minerals as _minerals

from checks.c10 import _moduli, ref_voigt
from checks.c11 import ref_tensor
from vlib import gen
from vlib.harness import Oracle, Skip, Violation, require, sut

RULE = (
    "Cases (a): the two built-in single-crystal tensors and generated positive-definite "
    "orthorhombic tensors (9 constants; principal values of both contractions separated by "
    ">=0.1% of the norm, best hexagonal axis separated from the runner-up by >=1e-4 relative) "
    "expressed in a frame rotated by a generated Q; (b): Voigt averages of generated "
    "textures (3..40 grains, olivine/enstatite mixtures) and their rotations by Q, "
    "restricted to tensors whose dilatational and deviatoric eigenvalue gaps exceed "
    "1e-3*norm and whose three candidate symmetry-axis permutations are separated; (c): "
    "arbitrary symmetric positive-definite 6x6 matrices for the moduli / percent-anisotropy "
    "formulas; every tensor in units from 1e-12 to 1e12 of the GPa values (moduli scale, "
    "percentages and axes do not). "
    "Non-trivial: Q at least 5 degrees from every axis-aligned rotation "
    "(a, b); >=15 non-zero independent entries (c); distinct = distinct canonical JSON."
)
ASSUMPTIONS = [
    "rotation of 6x6 matrices is done by an independent einsum on the 4th-order tensor",
    "ill-conditioned symmetry axes (near-degenerate eigenvalues or near-tied permutation choice) are excluded and counted",
]

KEYS = ["percent_anisotropy", "percent_hexagonal", "percent_tetragonal", "percent_orthorhombic", "percent_monoclinic", "percent_triclinic"]


def rotate6(m, Q):
    t = ref_tensor(m)
    return ref_voigt(np.einsum("ia,jb,kc,ld,abcd->ijkl", Q, Q, Q, Q, t))


def ortho_matrix(c):
    m = np.zeros((6, 6))
    m[0, 0], m[1, 1], m[2, 2] = c[0], c[1], c[2]
    m[0, 1] = m[1, 0] = c[3]
    m[0, 2] = m[2, 0] = c[4]
    m[1, 2] = m[2, 1] = c[5]
    m[3, 3], m[4, 4], m[5, 5] = c[6], c[7], c[8]
    return m


UNITS = [1.0, 1.0, 1e9, 1e-2, 1e3, 1e-12, 1e12, "whole", "whole"]  # GPa (twice), Pa, Mbar, MPa, and far-out scales


def ortho_spec():
    return st.builds(lambda spec, unit: dict(spec, unit=unit), _ortho_spec(), st.sampled_from(UNITS))


def _ortho_spec():
    return st.one_of(
        st.just({"k": "olivine"}),
        st.just({"k": "enstatite"}),
        st.fixed_dictionaries(
            {
                "k": st.just("gen"),
                "d": st.lists(st.floats(150.0, 400.0), min_size=3, max_size=3),
                "o": st.lists(st.floats(30.0, 110.0), min_size=3, max_size=3),
                "s": st.lists(st.floats(40.0, 120.0), min_size=3, max_size=3),
            }
        ),
    )


def ortho_from(spec):
    """The decomposition is homogeneous: moduli scale with the unit of the stiffnesses, the
    percentages and the axis do not depend on it."""
    unit = spec.get("unit", 1.0)
    if spec["k"] == "olivine":
        m = _minerals.StiffnessTensors().olivine.copy()
    elif spec["k"] == "enstatite":
        m = _minerals.StiffnessTensors().enstatite.copy()
    else:
        m = ortho_matrix(spec["d"] + spec["o"] + spec["s"])
    if unit == "whole":  # whole GPa values typed in as integers
        return np.round(m).astype(np.int64)
    return m * unit


def _contractions(m):
    t = ref_tensor(m)
    return np.einsum("ijkk->ij", t), np.einsum("ikjk->ij", t)


def _gaps(m):
    d, v = _contractions(m)
    nrm = np.sqrt(np.sum(ref_tensor(m) ** 2))
    gd = np.diff(np.linalg.eigvalsh(d)).min() / nrm
    gv = np.diff(np.linalg.eigvalsh(v)).min() / nrm
    return gd, gv


def _iso_part(m):
    K, G = _moduli(m)
    iso = np.zeros((6, 6))
    iso[:3, :3] = K - 2 * G / 3
    iso[np.arange(3), np.arange(3)] = K + 4 * G / 3
    iso[np.arange(3, 6), np.arange(3, 6)] = G
    return K, G, iso


def _fro(m):
    return float(np.sqrt(np.sum(ref_tensor(m) ** 2)))


def _basic(out, m, idx, what):
    """K, G, percent anisotropy against closed forms; ranges."""
    K, G, iso = _iso_part(m)
    sc = np.abs(m).max()
    require(abs(out["bulk_modulus"][idx] - K) <= 1e-10 * sc, f"{what}: bulk modulus {out['bulk_modulus'][idx]!r} != Voigt invariant {K!r}")
    require(abs(out["shear_modulus"][idx] - G) <= 1e-10 * sc, f"{what}: shear modulus {out['shear_modulus'][idx]!r} != Voigt invariant {G!r}")
    pa = 100.0 * _fro(m - iso) / _fro(m)
    require(abs(out["percent_anisotropy"][idx] - pa) <= 1e-8, f"{what}: percent anisotropy {out['percent_anisotropy'][idx]!r} != ||C-C_iso||/||C|| = {pa!r}")
    require(-1e-9 <= out["percent_anisotropy"][idx] <= 100 + 1e-9, f"{what}: percent anisotropy outside [0,100]")
    ax = out["hexagonal_axis"][idx]
    require(np.all(np.isfinite(ax)) and abs(np.linalg.norm(ax) - 1) <= 1e-9, f"{what}: hexagonal axis is not a unit vector: {ax}")
    for k in KEYS:
        require(np.isfinite(out[k][idx]) and -1e-9 <= out[k][idx] <= 100 + 1e-9, f"{what}: {k} = {out[k][idx]!r} outside [0,100]")
    return pa


def _own_decomposition(m_aligned):
    """Browaeys & Chevrot decomposition of an axis-aligned orthorhombic tensor, for each of
    the three possible symmetry axes: list of (distance to hexagonal, percentages, axis index).
    Uses pydrex.tensors projectors (their algebra is verified by C11)."""
    from pydrex import tensors as T

    t = ref_tensor(m_aligned)
    K, G, iso6 = _iso_part(m_aligned)
    out = []
    I = np.eye(3)
    for i in range(3):
        P = I[:, [(i + j) % 3 for j in range(3)]]
        v = T.voigt_matrix_to_vector(ref_voigt(np.einsum("ia,jb,kc,ld,abcd->ijkl", P.T, P.T, P.T, P.T, t)))
        iso = T.voigt_matrix_to_vector(iso6)
        mono = T.mono_project(v)
        orth = T.ortho_project(mono)
        tetr = T.tetr_project(orth)
        hexa = T.hex_project(tetr)
        n = np.linalg.norm(v)
        pct = {
            "percent_triclinic": 100 * np.linalg.norm(v - mono) / n,
            "percent_monoclinic": 100 * np.linalg.norm(mono - orth) / n,
            "percent_orthorhombic": 100 * np.linalg.norm(orth - tetr) / n,
            "percent_tetragonal": 100 * np.linalg.norm(tetr - hexa) / n,
            "percent_hexagonal": 100 * np.linalg.norm(hexa - iso) / n,
        }
        out.append((float(np.linalg.norm(v - hexa)), pct, (i + 2) % 3))
    return out


def _perm_gap(m_aligned):
    """Relative gap between best and second-best hexagonal distance over the three
    axis choices of an axis-aligned orthorhombic tensor (uses pydrex.tensors, trusted by C11)."""
    from pydrex import tensors as T

    t = ref_tensor(m_aligned)
    ds = []
    I = np.eye(3)
    for i in range(3):
        P = I[:, [(i + j) % 3 for j in range(3)]]
        v = T.voigt_matrix_to_vector(ref_voigt(np.einsum("ia,jb,kc,ld,abcd->ijkl", P.T, P.T, P.T, P.T, t)))
        h = T.hex_project(T.tetr_project(T.ortho_project(T.mono_project(v))))
        ds.append(np.linalg.norm(v - h))
    ds = np.sort(ds)
    return float((ds[1] - ds[0]) / np.linalg.norm(v))


def check_orthorhombic(case):
    m0 = ortho_from(case["C"])
    if np.linalg.eigvalsh(m0).min() <= 1e-6 * np.abs(m0).max():
        raise Skip("not positive definite")
    gd, gv = _gaps(m0)
    if gd < 1e-3 or gv < 1e-3:
        raise Skip("principal values not separated")
    if _perm_gap(m0) < 1e-4:
        raise Skip("symmetry-axis choice nearly tied")
    Q = gen.rot(case["Q"])
    m1 = rotate6(m0, Q)
    stack = np.stack([m0, m1])
    stack_before = stack.copy()
    out = sut(pydrex.elasticity_components, stack)
    require(np.array_equal(stack, stack_before), "elasticity_components modified its input matrices")
    worst = 0.0
    for idx, m, what in ((0, m0, "unrotated"), (1, m1, "rotated")):
        pa = _basic(out, m, idx, what)
        require(out["percent_monoclinic"][idx] <= 1e-7, f"{what} orthorhombic tensor: monoclinic part {out['percent_monoclinic'][idx]:.3e} != 0")
        require(out["percent_triclinic"][idx] <= 1e-7, f"{what} orthorhombic tensor: triclinic part {out['percent_triclinic'][idx]:.3e} != 0")
        ssq = sum(out[k][idx] ** 2 for k in KEYS[1:])
        e = abs(np.sqrt(ssq) - pa)
        require(e <= 1e-7, f"{what}: squared class percentages do not add up to the squared percent anisotropy (|diff|={e:.3e})", e)
        worst = max(worst, e)
    for k in KEYS:
        e = abs(out[k][0] - out[k][1])
        require(e <= 1e-7 * max(1.0, abs(out[k][0])), f"{k} changes under a frame rotation: {out[k][0]!r} -> {out[k][1]!r}", e)
        worst = max(worst, e)
    for k in ("bulk_modulus", "shear_modulus"):
        e = abs(out[k][0] - out[k][1]) / np.abs(m0).max()
        require(e <= 1e-10, f"{k} changes under a frame rotation: {out[k][0]!r} -> {out[k][1]!r}", e)
    a0, a1 = out["hexagonal_axis"][0], out["hexagonal_axis"][1]
    e = min(np.abs(Q @ a0 - a1).max(), np.abs(Q @ a0 + a1).max())
    require(e <= 1e-7, f"hexagonal axis does not co-rotate: Q.axis0={Q @ a0}, axis'={a1}", e)
    # unrotated axis-aligned orthorhombic tensor: the axis is a coordinate axis
    require(np.sort(np.abs(a0))[1] <= 1e-9, f"hexagonal axis of an axis-aligned orthorhombic tensor is not a coordinate axis: {a0}")
    # ... namely the one that gives the closest hexagonal approximation, with the class
    # percentages of the decomposition about that axis
    own = sorted(_own_decomposition(m0), key=lambda x: x[0])
    best = own[0]
    require(int(np.argmax(np.abs(a0))) == best[2], f"reported hexagonal axis {a0} is not the axis of the closest hexagonal approximation (coordinate axis {best[2]}; distances {[round(o[0], 6) for o in own]})")
    for k, v in best[1].items():
        require(abs(out[k][0] - v) <= 1e-7, f"{k} = {out[k][0]!r}, decomposition about the best axis gives {v!r}")
    return {"nontrivial": gen.angle_from_axis24(Q) >= 5.0, "labels": [case["C"]["k"], case["Q"]["k"], f"unit{case['C'].get('unit', 1.0)}"], "residual": max(worst, e)}


def avg_case():
    return st.fixed_dictionaries(
        {
            "tex": gen.texture_spec(3, 40, 8),
            "vol": gen.volume_spec(),
            "tex2": gen.texture_spec(3, 40, 8),
            "k": st.integers(0, 1000),
            "Q": st.one_of(gen.generic_rotation_spec(), gen.rotation_spec()),
        }
    )


def _sut_perm_gap(m):
    """Separation of the three candidate permutations for a general tensor, evaluated in
    its own symmetry frame as found by a plain eigen-decomposition of d_ij."""
    from pydrex import tensors as T

    d, v = _contractions(m)
    _, E = np.linalg.eigh(d)
    t = ref_tensor(m)
    ds = []
    for i in range(3):
        P = E[:, [(i + j) % 3 for j in range(3)]]
        vv = T.voigt_matrix_to_vector(ref_voigt(np.einsum("ia,jb,kc,ld,abcd->ijkl", P.T, P.T, P.T, P.T, t)))
        h = T.hex_project(T.tetr_project(T.ortho_project(T.mono_project(vv))))
        ds.append(np.linalg.norm(vv - h))
    ds = np.sort(ds)
    return float((ds[1] - ds[0]) / np.linalg.norm(vv))


def check_average_frame(case):
    A = gen.orientations(case["tex"])
    f = gen.volumes(case["vol"], len(A))
    A2 = gen.orientations(case["tex2"])
    f2 = np.full(len(A2), 1.0 / len(A2))
    phi = case["k"] / 1000.0
    S = _minerals.StiffnessTensors()

    def avg(Qm):
        out = np.zeros((3, 3, 3, 3))
        for As, fs, C, w in ((A, f, S.olivine, phi), (A2, f2, S.enstatite, 1 - phi)):
            t = ref_tensor(C)
            for a, fr in zip(As, fs):
                R = (a @ Qm.T).T
                out += w * fr * np.einsum("ia,jb,kc,ld,abcd->ijkl", R, R, R, R, t)
        return ref_voigt(out)

    Q = gen.rot(case["Q"])
    m0 = avg(np.eye(3))
    m1 = avg(Q)
    gd, gv = _gaps(m0)
    if gd < 1e-3 or gv < 1e-3:
        raise Skip("eigenvalues of a contraction not separated")
    if _sut_perm_gap(m0) < 1e-3:
        raise Skip("symmetry-axis choice nearly tied")
    out = sut(pydrex.elasticity_components, np.stack([m0, m1]))
    _basic(out, m0, 0, "unrotated")
    _basic(out, m1, 1, "rotated")
    worst = 0.0
    for k in KEYS + ["bulk_modulus", "shear_modulus"]:
        e = abs(out[k][0] - out[k][1])
        require(e <= 1e-6 * max(1.0, abs(out[k][0])), f"{k} of a Voigt average changes under a frame rotation: {out[k][0]!r} -> {out[k][1]!r}", e)
        worst = max(worst, e)
    a0, a1 = out["hexagonal_axis"][0], out["hexagonal_axis"][1]
    e = min(np.abs(Q @ a0 - a1).max(), np.abs(Q @ a0 + a1).max())
    require(e <= 1e-6, f"hexagonal axis of a Voigt average does not co-rotate (|diff|={e:.3e})", e)
    return {"nontrivial": gen.angle_from_axis24(Q) >= 5.0, "labels": [case["tex"]["fam"], case["Q"]["k"]], "residual": max(worst, e)}


def check_general(case):
    """Any symmetric positive-definite matrix: moduli, percent anisotropy, ranges."""
    from checks.c11 import sym_matrix

    m = sym_matrix(case["m"])
    m = m + np.eye(6) * (np.abs(m).sum(axis=1).max() + 1.0)
    m = np.round(m).astype(np.int64) if case.get("unit") == "whole" else m * case.get("unit", 1.0)
    out = sut(pydrex.elasticity_components, m[None])
    _basic(out, m, 0, "general tensor")
    # upper triangle is what counts (documented behaviour: symmetrised from the upper triangle)
    return {"nontrivial": np.count_nonzero(case["m"]) >= 15, "labels": [], "residual": 0.0}


from checks.c11 import sym21  # noqa: E402

ORACLES = [
    Oracle(
        "orthorhombic_rotated",
        st.fixed_dictionaries({"C": ortho_spec(), "Q": st.one_of(gen.generic_rotation_spec(), gen.rotation_spec())}),
        check_orthorhombic,
        classify=lambda c: c["C"]["k"],
        quick=150,
        thorough=4000,
    ),
    Oracle("voigt_average_frame", avg_case(), check_average_frame, quick=80, thorough=2000),
    Oracle("general_moduli", st.fixed_dictionaries({"m": sym21, "unit": st.sampled_from(UNITS)}), check_general, quick=150, thorough=1500),
]
