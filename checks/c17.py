"""C17 — Mineral persistence round trip is exact for any history and any postfix set."""

import os
import shutil
import tempfile

import numpy as np
from hypothesis import strategies as st

from pydrex import core as _core
from pydrex import minerals as _minerals

from vlib import gen
from vlib.harness import Oracle, Skip, Violation, require, sut

RULE = (
    "A case is an operation sequence on one temporary directory with two archive names, "
    "generated either by a Hypothesis RuleBasedStateMachine (oracle stateful_machine: rules = "
    "operations, preconditions on the model state, invariant after every step) or as a drawn "
    "list of operations executed by the same runner: "
    "save(mineral, whole file | distinct postfix from [A-Za-z0-9_-]{1,12}) with generated "
    "phase (0..1), fabric (0..5), regime (0..7), grain count 1..30, 1..6 snapshots of "
    "arbitrary float64 bit patterns (random 64-bit words reinterpreted as doubles, so NaN "
    "payloads, infinities, -0.0 and denormals occur, plus planted special values); "
    "load_into(existing Mineral with a different grain count) and from_file, for any "
    "previously saved entry in any order; fault steps: unequal snapshot counts, first or "
    "later snapshot not matching n_grains (any snapshot index x fractions/orientations/both/"
    "orientations without the grain axis x sizes 1, n-1, n+1, 2n, 0), "
    "non-.npz names for both loaders. After every "
    "load the restored object is compared bit-for-bit with an in-memory model "
    "(dict archive -> postfix -> metadata + raw bytes); after every step the directory "
    "listing is checked against the model and every modelled entry must still be "
    "recoverable at the end. Non-trivial: an archive with >=3 postfixes loaded in an order "
    "different from the save order; distinct = distinct canonical JSON."
)
ASSUMPTIONS = [
    "a whole-file save overwrites the archive (numpy.savez semantics): earlier postfix entries of that archive are dropped from the model, their absence is not asserted",
    "save() under a non-.npz name is read conservatively: it need not raise, but if it raises nothing may have been written",
]

POSTFIX_CHARS = list("abcxyzABCXYZ0123456789_-")
# half of the postfixes come from a small pool of names that are prefixes / suffixes /
# underscore-delimited tails of one another (particle ids such as "1", "X02_1", "11"),
# so that any lookup by partial match is exposed
POSTFIX_POOL = ["1", "2", "11", "01", "1_1", "X02_1", "a_1", "b_a_1", "1_", "_1", "a", "a_b", "b", "A", "x-1", "1-1", "meta", "fractions", "1_meta",
                # names that differ only in characters outside [A-Za-z0-9_] or in case
                "x1", "1-", "-1", "a-b", "ab", "a-", "-a", "1--1", "1-_1", "B", "A_B", "a_B"]
postfix = st.one_of(
    st.lists(st.sampled_from(POSTFIX_CHARS), min_size=1, max_size=12).map("".join),
    st.sampled_from(POSTFIX_POOL),
)

SPECIALS = np.array([np.nan, np.inf, -np.inf, -0.0, 0.0, 5e-324, -5e-324, 1.0, -1.0, 1e308, 2.2250738585072014e-308])


FAULT_KINDS = ["unequal_counts", "n_mismatch", "later_snapshot_size", "snapshot_size", "snapshot_size", "load_non_npz", "from_file_non_npz", "save_non_npz"]
FAULT_EXTRA = {
    "snap": st.integers(0, 7),
    "which": st.sampled_from(["f", "o", "both", "o_flat"]),
    "size": st.sampled_from(["one", "one", "minus", "plus", "double", "zero"]),
}

def mineral_data():
    return st.fixed_dictionaries(
        {
            "phase": st.integers(0, 1),
            "fabric": st.integers(0, 5),
            "regime": st.integers(0, 7),
            "n": st.integers(1, 30),
            "steps": st.integers(1, 6),
            "seed": gen.small_seed,
            "kind": st.sampled_from(["bits", "texture", "special"]),
        }
    )


def arrays(md):
    rng = np.random.default_rng(md["seed"])
    n, steps = md["n"], md["steps"]
    if md["kind"] == "bits":
        f = rng.integers(0, 2**64, size=(steps, n), dtype=np.uint64).view(np.float64)
        o = rng.integers(0, 2**64, size=(steps, n, 3, 3), dtype=np.uint64).view(np.float64)
    elif md["kind"] == "texture":
        o = np.stack([gen._random_rotations(rng, n) for _ in range(steps)])
        f = rng.dirichlet(np.ones(n), size=steps)
    else:
        f = rng.choice(SPECIALS, size=(steps, n))
        o = rng.choice(SPECIALS, size=(steps, n, 3, 3))
    return np.ascontiguousarray(f), np.ascontiguousarray(o)


def build(md):
    f, o = arrays(md)
    m = sut(
        _minerals.Mineral,
        phase=_core.MineralPhase(md["phase"]),
        fabric=_core.MineralFabric(md["fabric"]),
        regime=_core.DeformationRegime(md["regime"]),
        n_grains=md["n"],
        fractions_init=f[0].copy(),
        orientations_init=o[0].copy(),
    )
    m.fractions = [x.copy() for x in f]
    m.orientations = [x.copy() for x in o]
    return m


def model_of(md):
    f, o = arrays(md)
    return {
        "meta": (md["phase"], md["fabric"], md["regime"]),
        "n": md["n"],
        "f": [x.tobytes() for x in f],
        "o": [x.tobytes() for x in o],
    }


_save_pf = st.fixed_dictionaries({"op": st.just("save"), "file": st.sampled_from([0, 0, 0, 1]), "pf": postfix, "m": mineral_data()})
op = st.one_of(
    st.fixed_dictionaries({"op": st.just("save"), "file": st.integers(0, 1), "pf": st.one_of(st.none(), postfix, postfix), "m": mineral_data()}),
    _save_pf,
    _save_pf,
    st.fixed_dictionaries({"op": st.just("load"), "pick": st.integers(0, 1000), "into_n": st.integers(1, 40), "how": st.sampled_from(["load", "from_file"])}),
    st.fixed_dictionaries({"op": st.just("load"), "pick": st.integers(0, 1000), "into_n": st.integers(1, 40), "how": st.sampled_from(["load", "from_file"])}),
    st.fixed_dictionaries(
        {
            "op": st.just("fault"),
            "kind": st.sampled_from(FAULT_KINDS),
            **FAULT_EXTRA,
            "file": st.integers(0, 1),
            "pf": st.one_of(st.none(), postfix),
            "m": mineral_data(),
        }
    ),
)


def listing(d):
    out = {}
    for root, _, files in os.walk(d):
        for fn in files:
            p = os.path.join(root, fn)
            with open(p, "rb") as f:
                out[os.path.relpath(p, d)] = f.read()
    return out


def _check_loaded(m, ref, what):
    require(int(m.phase) == ref["meta"][0] and int(m.fabric) == ref["meta"][1] and int(m.regime) == ref["meta"][2],
            f"{what}: phase/fabric/regime restored as {(int(m.phase), int(m.fabric), int(m.regime))}, saved {ref['meta']}")
    require(int(m.n_grains) == ref["n"], f"{what}: grain count restored as {m.n_grains}, saved {ref['n']}")
    require(len(m.fractions) == len(ref["f"]) and len(m.orientations) == len(ref["o"]),
            f"{what}: {len(m.fractions)}/{len(m.orientations)} snapshots restored, saved {len(ref['f'])}")
    for k in range(len(ref["f"])):
        fk = np.asarray(m.fractions[k])
        ok = np.asarray(m.orientations[k])
        require(fk.dtype == np.float64 and ok.dtype == np.float64, f"{what}: snapshot {k} restored with dtype {fk.dtype}/{ok.dtype}")
        require(fk.shape == (ref["n"],) and ok.shape == (ref["n"], 3, 3), f"{what}: snapshot {k} restored with shapes {fk.shape}, {ok.shape}")
        require(np.ascontiguousarray(fk).tobytes() == ref["f"][k], f"{what}: fractions of snapshot {k} are not bit-identical")
        require(np.ascontiguousarray(ok).tobytes() == ref["o"][k], f"{what}: orientations of snapshot {k} are not bit-identical")


def _load(how, path, pf, into_n):
    if how == "from_file":
        return sut(_minerals.Mineral.from_file, path, postfix=pf)
    m = sut(_minerals.Mineral, n_grains=into_n, seed=1)
    sut(m.load, path, postfix=pf)
    return m


class ArchiveRunner:
    """Executes save / load / fault operations against real archives and an in-memory model;
    every `step` checks the invariants.  Shared by the generated-sequence oracles and by the
    Hypothesis rule-based state machine."""

    def __init__(self):
        self.d = tempfile.mkdtemp(prefix="c17_")
        self.files = [os.path.join(self.d, "a.npz"), os.path.join(self.d, "sub", "b.npz")]
        self.model = {0: {}, 1: {}}  # file -> {postfix or None: ref}
        self.order = {0: [], 1: []}
        self.loads = {0: [], 1: []}
        self.n_loads = self.n_faults = 0
        self.nstep = 0

    def close(self):
        shutil.rmtree(self.d, ignore_errors=True)

    def entries(self):
        return [(fi, pf) for fi in (0, 1) for pf in self.model[fi]]

    def step(self, o):
        d, files, model, order, loads = self.d, self.files, self.model, self.order, self.loads
        step = self.nstep
        self.nstep += 1
        if o["op"] == "save":
            fi, pf = o["file"], o["pf"]
            if pf is not None and pf in model[fi]:
                return  # postfixes must be distinct
            m = build(o["m"])
            sut(m.save, files[fi], postfix=pf)
            if pf is None:
                model[fi] = {}
                order[fi] = []
                loads[fi] = []
            model[fi][pf] = model_of(o["m"])
            order[fi].append(pf)
            # saving must not alter the saved object
            _check_loaded(m, model[fi][pf], f"step {step}: object after save")
        elif o["op"] == "load":
            entries = self.entries()
            if not entries:
                return
            fi, pf = entries[o["pick"] % len(entries)]
            m = _load(o["how"], files[fi], pf, o["into_n"])
            _check_loaded(m, model[fi][pf], f"step {step}: {o['how']}({os.path.basename(files[fi])}, postfix={pf!r})")
            loads[fi].append(pf)
            self.n_loads += 1
        else:
            self.n_faults += 1
            before = listing(d)
            kind = o["kind"]
            md = o["m"]
            fi = o["file"]
            pf = o["pf"]
            if pf is not None and pf in model[fi]:
                pf = pf + "_f"
            m = build(md)
            raised = None
            must_raise = True
            try:
                if kind == "unequal_counts":
                    m.fractions = m.fractions + [m.fractions[0]]
                    m.save(files[fi], postfix=pf)
                elif kind == "n_mismatch":
                    m.n_grains = md["n"] + 1
                    m.save(files[fi], postfix=pf)
                elif kind == "later_snapshot_size":
                    if md["steps"] < 2:
                        return
                    m.fractions[-1] = np.append(m.fractions[-1], 0.5)
                    m.orientations[-1] = np.concatenate([m.orientations[-1], np.eye(3)[None]])
                    m.save(files[fi], postfix=pf)
                elif kind == "snapshot_size":
                    # one snapshot (any index) whose arrays do not have n_grains entries: sizes that
                    # numpy would broadcast (1), off-by-one, double, empty; fractions, orientations
                    # or both; orientations that lost their grain axis
                    n = md["n"]
                    k = {"one": 1, "minus": n - 1, "plus": n + 1, "double": 2 * n, "zero": 0}[o.get("size", "one")]
                    if k == n or k < 0:
                        return
                    i = o.get("snap", 0) % len(m.fractions)
                    which = o.get("which", "both")
                    if which in ("f", "both"):
                        m.fractions[i] = np.full(k, 1.0 / max(k, 1))
                    if which in ("o", "both"):
                        m.orientations[i] = np.stack([np.eye(3)] * k) if k else np.empty((0, 3, 3))
                    if which == "o_flat":
                        m.orientations[i] = np.eye(3)
                    m.save(files[fi], postfix=pf)
                elif kind == "load_non_npz":
                    bad = os.path.join(d, "c.dat")
                    shutil.copyfile(files[fi], bad) if os.path.exists(files[fi]) else open(bad, "wb").close()
                    before = listing(d)
                    m.load(bad, postfix=None)
                elif kind == "from_file_non_npz":
                    bad = os.path.join(d, "c.npy")
                    shutil.copyfile(files[fi], bad) if os.path.exists(files[fi]) else open(bad, "wb").close()
                    before = listing(d)
                    _minerals.Mineral.from_file(bad, postfix=None)
                else:  # save_non_npz
                    must_raise = False
                    m.save(os.path.join(d, "plain.dat"), postfix=pf)
            except ValueError as e:
                raised = e
            except Exception as e:  # noqa: BLE001
                raise Violation(f"step {step}: fault {kind} raised {type(e).__name__} instead of ValueError: {str(e)[:120]}")
            if must_raise:
                require(raised is not None, f"step {step}: fault {kind} was accepted instead of raising ValueError")
            if raised is not None:
                after = listing(d)
                require(after == before, f"step {step}: fault {kind} raised but changed files on disk: {sorted(set(after) ^ set(before)) or 'contents differ'}")
            elif kind == "save_non_npz":
                # accepted: remove whatever it wrote so that later listings stay comparable
                for fn in set(listing(d)) - set(before):
                    os.unlink(os.path.join(d, fn))
        # directory invariant: exactly the archives that the model knows
        have = set(listing(d)) - {"c.dat", "c.npy"}
        want = {os.path.relpath(files[fi], d) for fi in (0, 1) if model[fi]}
        require(have == want, f"step {step}: files on disk {sorted(have)} != expected {sorted(want)}")

    def finish(self):
        """Final sweep: everything ever saved (and not overwritten) is recoverable, both loaders."""
        for fi in (0, 1):
            for pf in reversed(self.order[fi]):
                for how in ("from_file", "load"):
                    m = _load(how, self.files[fi], pf, 3)
                    _check_loaded(m, self.model[fi][pf], f"final sweep {how}({os.path.basename(self.files[fi])}, postfix={pf!r})")
        nontrivial = any(len([p for p in self.order[fi] if p is not None]) >= 3 for fi in (0, 1))  # the sweep loads in reverse save order
        return {
            "nontrivial": nontrivial,
            "labels": [f"saves{min(sum(len(v) for v in self.order.values()), 8)}", f"loads{min(self.n_loads, 8)}", f"faults{min(self.n_faults, 4)}"],
            "residual": 0.0,
        }


def check_sequence(case):
    r = ArchiveRunner()
    try:
        for o in case["ops"]:
            r.step(o)
        return r.finish()
    finally:
        r.close()


def classify(case):
    kinds = sorted({o["kind"] for o in case["ops"] if o["op"] == "fault"})
    hows = sorted({o["how"] for o in case["ops"] if o["op"] == "load"})
    return "+".join(kinds + hows) or "saves_only"


_load_op = st.fixed_dictionaries({"op": st.just("load"), "pick": st.integers(0, 1000), "into_n": st.integers(1, 40), "how": st.sampled_from(["load", "from_file"])})
_fault_op = st.fixed_dictionaries(
    {
        "op": st.just("fault"),
        "kind": st.sampled_from(FAULT_KINDS),
            **FAULT_EXTRA,
        "file": st.integers(0, 1),
        "pf": st.one_of(st.none(), postfix),
        "m": mineral_data(),
    }
)
_any_save = st.fixed_dictionaries({"op": st.just("save"), "file": st.integers(0, 1), "pf": st.one_of(st.none(), postfix), "m": mineral_data()})


def _mix(saves, loads, faults, seed):
    """Deterministic interleaving of the three op lists (pure function of the drawn seed)."""
    ops = list(saves) + list(loads) + list(faults)
    rng = np.random.default_rng(seed)
    idx = rng.permutation(len(ops))
    # keep the first save in front so that loads have something to find
    seq = [ops[i] for i in idx]
    first = next(i for i, o in enumerate(seq) if o["op"] == "save")
    seq.insert(0, seq.pop(first))
    return {"ops": seq}


def sequence_case(min_saves, max_saves, max_loads, max_faults):
    return st.builds(
        _mix,
        st.lists(st.one_of(_save_pf, _save_pf, _any_save), min_size=min_saves, max_size=max_saves),
        st.lists(_load_op, min_size=1, max_size=max_loads),
        st.lists(_fault_op, min_size=0, max_size=max_faults),
        gen.small_seed,
    )


def large_case():
    """Archive entries of tens of megabytes (many grains x many snapshots; the serialised
    orientation array of n grains x k snapshots takes 72 n k bytes), saved under a postfix next
    to a small mineral and as a whole file, loaded back through both loaders."""
    big = st.fixed_dictionaries(
        {
            "phase": st.integers(0, 1),
            "fabric": st.integers(0, 5),
            "regime": st.integers(0, 7),
            "n": st.integers(2000, 9000),
            "mib": st.sampled_from([12, 17, 24, 33, 40]),
            "seed": gen.small_seed,
            "kind": st.sampled_from(["bits", "texture"]),
        }
    ).map(lambda d: dict({k: v for k, v in d.items() if k != "mib"}, steps=max(1, int(d["mib"] * 2**20 / (72 * d["n"])) + 1)))
    small = mineral_data()
    return st.builds(
        lambda b, sm, pf1, pf2, how: {
            "ops": [
                {"op": "save", "file": 0, "pf": pf1, "m": sm},
                {"op": "save", "file": 0, "pf": pf1 + "_" + pf2, "m": b},
                {"op": "save", "file": 1, "pf": None, "m": b},
                {"op": "load", "pick": 1, "into_n": 3, "how": how},
                {"op": "load", "pick": 0, "into_n": 3, "how": "from_file"},
                {"op": "load", "pick": 2, "into_n": 3, "how": "load"},
            ]
        },
        big,
        small,
        postfix,
        postfix,
        st.sampled_from(["load", "from_file"]),
    )


def make_machine(hooks):
    """Hypothesis rule-based state machine over the same executor (`ArchiveRunner`): rules are
    the operations, preconditions depend on the model state, the recoverability invariant runs
    after every step, and the applied operation list is the replayable case."""
    from hypothesis.stateful import RuleBasedStateMachine, invariant, precondition, rule

    class ArchiveMachine(RuleBasedStateMachine):
        def __init__(self):
            super().__init__()
            self.r = ArchiveRunner()
            self.ops = []
            self.failed = False

        def _apply(self, op):
            if hooks.over_budget():
                return
            self.ops.append(op)
            try:
                self.r.step(op)
            except Violation as v:
                self.failed = True
                if hooks.fail({"ops": list(self.ops)}, str(v), v.residual):
                    raise

        @rule(file=st.sampled_from([0, 0, 0, 1]), pf=postfix, m=mineral_data())
        def save_postfix(self, file, pf, m):
            self._apply({"op": "save", "file": file, "pf": pf, "m": m})

        @rule(file=st.integers(0, 1), m=mineral_data())
        def save_whole(self, file, m):
            self._apply({"op": "save", "file": file, "pf": None, "m": m})

        @precondition(lambda self: bool(self.r.entries()))
        @rule(pick=st.integers(0, 1000), into_n=st.integers(1, 40), how=st.sampled_from(["load", "from_file"]))
        def load(self, pick, into_n, how):
            self._apply({"op": "load", "pick": pick, "into_n": into_n, "how": how})

        @rule(
            kind=st.sampled_from(FAULT_KINDS),
            snap=FAULT_EXTRA["snap"],
            which=FAULT_EXTRA["which"],
            size=FAULT_EXTRA["size"],
            file=st.integers(0, 1),
            pf=st.one_of(st.none(), postfix),
            m=mineral_data(),
        )
        def fault(self, kind, file, pf, m, snap, which, size):
            self._apply({"op": "fault", "kind": kind, "file": file, "pf": pf, "m": m, "snap": snap, "which": which, "size": size})

        @invariant()
        def everything_recoverable(self):
            if self.failed or hooks.over_budget():
                return
            try:
                self._info = self.r.finish()
            except Violation as v:
                self.failed = True
                if hooks.fail({"ops": list(self.ops)}, str(v), v.residual):
                    raise

        def teardown(self):
            try:
                if not self.failed and self.ops:
                    hooks.done({"ops": list(self.ops)}, getattr(self, "_info", None))
            finally:
                self.r.close()

    return ArchiveMachine


ORACLES = [
    Oracle("stateful_machine", None, check_sequence, classify=classify, machine=make_machine, machine_steps=25, quick=60, thorough=300),
    Oracle("save_load_sequence", sequence_case(1, 8, 10, 3), check_sequence, classify=classify, quick=160, thorough=1500),
    Oracle("save_load_many_postfixes", sequence_case(4, 8, 12, 2), check_sequence, classify=classify, quick=80, thorough=1000),
    Oracle("large_entries", large_case(), check_sequence, classify=lambda c: "large", quick=4, thorough=16),
    Oracle("save_load_sequence_long", sequence_case(8, 20, 30, 6), check_sequence, classify=classify, quick=0, thorough=200),
]
SHARDS = {"quick": 4, "thorough": 16}
