"""C02 — solver rates equal the published D-Rex equations for every fabric and input."""

import numpy as np
from hypothesis import strategies as st

from vlib import drexcase, gen, nojit, ref_drex
from vlib.harness import Oracle, Skip, Violation, require

RULE = (
    "Cases: (phase,fabric) in the 6 supported pairs x regime in {matrix_dislocation, "
    "frictional_yielding} x 1..24 grains (explicit rotation lists mixing generic, "
    "axis-aligned and near-axis-aligned rotations; seeded random / clustered / girdle / "
    "single-orientation sets) x volumes on the simplex (uniform, explicit, gamma-random, "
    "one dominant grain, exact zeros) x velocity gradient family (simple/pure shear, "
    "axisymmetric, general D+W, raw 3x3; each conjugated by a rotation; optional trace) "
    "normalised to unit max |principal strain rate| x p in [1,2], n in [2,5], lambda* in "
    "[0,10], M* in [0,200], phi in (0,1]. Excluded (counted in 'skipped'): a grain with "
    "max activity < 1e-9 (C03's domain) or with an exact inac/min activity tie (model "
    "ambiguous). Non-trivial: at least one grain with >=2 slip systems of |beta|>1e-3, "
    "non-zero vorticity, and not (olivine A with every grain axis-aligned); distinct = "
    "distinct canonical JSON of the generated case."
)
ASSUMPTIONS = [
    "reference model vlib/ref_drex.py transcribes the published equations (Kaminski & Ribe 2001; Kaminski et al. 2004; Fraters & Billen 2021 S1) in vector form",
    "volume-rate comparison skipped (orientation rates still compared) when some grain has |gamma|<1e-6, where E ~ |gamma|^(p/n) amplifies rounding without bound",
]


def _nontrivial(x, case, cond):
    W = x["L"] - x["L"].T
    aligned = all(gen.angle_from_axis24(a) < 1e-6 for a in x["A"][:8])
    return bool(cond["multi"] >= 1 and np.abs(W).max() > 1e-6 and not (x["fname"] == "olivine_A" and aligned))


def check_reference(case):
    x = drexcase.expand(case)
    if x is None:
        raise Skip("zero strain rate")
    rA, rf, gs, E = ref_drex.derivatives(
        x["regime"], x["phase"], x["fabric"], x["A"], x["f"], x["L"], x["p"], x["n"], x["lam"], x["M"], x["phi"]
    )
    cond = drexcase.conditioning(x, gs)
    if cond["noslip"]:
        raise Skip("grain without resolvable slip")
    if cond["tie"]:
        raise Skip("activity tie")
    Adot, fdot = drexcase.call(x)
    require(Adot.shape == rA.shape and fdot.shape == rf.shape, "wrong output shapes")
    lscale = 1.0 + np.abs(x["L"]).max()
    errA = float(np.abs(Adot - rA).max())
    require(
        np.all(np.isfinite(Adot)) and errA <= 1e-10 * lscale,
        f"orientation rates differ from the published equations by {errA:.3e} ({x['fname']}, regime {x['regime']})",
        errA,
    )
    labels = [x["fname"], f"regime{x['regime']}", case["L"]["fam"], case["tex"]["fam"]]
    res = errA
    if cond["gamma0"] == 0:
        errf = float(np.abs(fdot - rf).max())
        tol = 1e-10 * (1.0 + x["M"])
        require(
            np.all(np.isfinite(fdot)) and errf <= tol,
            f"volume rates differ from the published equations by {errf:.3e} > {tol:.1e} ({x['fname']}, regime {x['regime']})",
            errf,
        )
        res = max(res, errf / (1.0 + x["M"]))
        labels.append("fdot_compared")
    else:
        labels.append("fdot_skipped_gamma0")
    return {"nontrivial": _nontrivial(x, case, cond), "labels": labels, "residual": res}


def check_interpreted(case):
    """Compiled (fastmath JIT) result == interpreted Python source, same inputs."""
    x = drexcase.expand(case)
    if x is None:
        raise Skip("zero strain rate")
    _, _, gs, _ = ref_drex.derivatives(
        x["regime"], x["phase"], x["fabric"], x["A"], x["f"], x["L"], x["p"], x["n"], x["lam"], x["M"], x["phi"]
    )
    cond = drexcase.conditioning(x, gs)
    if cond["noslip"] or cond["tie"]:
        raise Skip("no slip / tie")
    Adot, fdot = drexcase.call(x)
    res = nojit.derivatives(x)
    if "error" in res:
        raise Violation(f"interpreted source raised {res['error']} while the compiled solver returned values")
    pA = np.array(res["Adot"])
    pf = np.array(res["fdot"])
    lscale = 1.0 + np.abs(x["L"]).max()
    errA = float(np.abs(Adot - pA).max())
    require(errA <= 1e-10 * lscale, f"compiled vs interpreted orientation rates differ by {errA:.3e}", errA)
    r = errA
    if cond["gamma0"] == 0:
        errf = float(np.abs(fdot - pf).max())
        require(errf <= 1e-10 * (1 + x["M"]), f"compiled vs interpreted volume rates differ by {errf:.3e}", errf)
        r = max(r, errf / (1 + x["M"]))
    return {"nontrivial": _nontrivial(x, case, cond), "labels": [x["fname"]], "residual": r}


def classify(case):
    return gen.FABRICS[case["par"]["pf"]][2]


ORACLES = [
    Oracle("reference_model", drexcase.rate_case(24, 8), check_reference, classify=classify, quick=1500, thorough=20000),
    Oracle("compiled_vs_interpreted", drexcase.rate_case(6, 4), check_interpreted, classify=classify, quick=150, thorough=1000),
]
