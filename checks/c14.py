"""C14 — M-index is a frame-independent texture-strength scalar in [0, 1]."""

import math
import multiprocessing as mp

import numpy as np
from hypothesis import strategies as st

from pydrex import diagnostics as D
from pydrex import geometry as G
from pydrex import stats as S

from vlib import gen, ref_mindex
from vlib.harness import Oracle, Skip, Violation, require, sut

RULE = (
    "Cases: lattice system (all six) x orientation set of 2..60 grains (quick; up to 400 "
    "thorough) from the texture families (explicit generic/axis-aligned/near-aligned, "
    "random, clustered, girdle, single-orientation) x frame rotation Q x permutation seed x "
    "per-grain relabelling by proper symmetry rotations of that system (monoclinic: "
    "two-fold about b; orthorhombic: the three two-folds; rhombohedral/tetragonal/hexagonal: "
    "the 3/4/6-fold about c and a two-fold about a). Batched cases: stacks of 1..8 "
    "snapshots with different textures, worker counts 1..16 and an externally created "
    "pool. Non-trivial: >=3 grains not all identical, Q >=5 degrees from axis-aligned "
    "(invariance oracles); stack length >=2 and >=2 workers (batched); distinct = distinct "
    "canonical JSON."
)
ASSUMPTIONS = [
    "schedules: worker count, pool provenance and per-snapshot texture are varied; the OS interleaving itself is not controlled",
    "uniform textures: M <= M_ref + 0.02 where M_ref is an independent correct M-index (vlib/ref_mindex.py: proper rotation groups, Monte-Carlo theoretical density) of the same generated texture, i.e. its sampling level (triclinic agrees within 0.003); single orientation: >= 0.95",
    "frame/symmetry invariance tolerance: 1e-6, or (k+1)/pairs when k pairs lie within float32 rounding of a 1-degree bin edge (they may hop bins without any defect)",
]

SYSTEMS = [s.name for s in G.LatticeSystem]


def sym_rotations(name):
    z = lambda a: gen.axis_angle_matrix([0, 0, 1], a)  # noqa: E731
    x2 = np.diag([1.0, -1.0, -1.0])
    y2 = np.diag([-1.0, 1.0, -1.0])
    z2 = np.diag([-1.0, -1.0, 1.0])
    return {
        "triclinic": [],
        "monoclinic": [y2],
        "orthorhombic": [x2, y2, z2],
        "rhombohedral": [z(2 * math.pi / 3), z(4 * math.pi / 3), x2],
        "tetragonal": [z(math.pi / 2), z2, z(3 * math.pi / 2), x2],
        "hexagonal": [z(math.pi / 3), z(2 * math.pi / 3), z2, x2],
    }[name]


def m_case(max_n=60):
    return st.fixed_dictionaries(
        {
            "sys": st.sampled_from(SYSTEMS),
            "tex": gen.texture_spec(2, max_n, 10),
            "Q": st.one_of(gen.generic_rotation_spec(), gen.rotation_spec()),
            "perm": gen.small_seed,
            "ops": st.lists(st.integers(-1, 3), min_size=1, max_size=12),
        }
    )


def _sys(case):
    return G.LatticeSystem[case["sys"]]


def _m(A, system):
    A = np.ascontiguousarray(A)
    before = A.copy()
    m = float(sut(D.misorientation_index, A, system))
    require(np.array_equal(A, before), "misorientation_index modified the orientation array")
    return m


def _nontrivial(A, Q):
    return bool(len(A) >= 3 and np.abs(A - A[0]).max() > 1e-9 and gen.angle_from_axis24(Q) >= 5.0)


def check_range_perm(case):
    A = gen.orientations(case["tex"])
    system = _sys(case)
    m = _m(A, system)
    require(np.isfinite(m) and -1e-3 <= m <= 1 + 1e-3, f"M-index {m!r} outside [0,1] ({case['sys']}, {len(A)} grains)")
    rng = np.random.default_rng(case["perm"])
    mp_ = _m(A[rng.permutation(len(A))], system)
    e = abs(m - mp_)
    require(e <= 1e-9, f"M-index changes by {e:.3e} when grains are reordered ({case['sys']})", e)
    return {"nontrivial": _nontrivial(A, np.eye(3) * 0 + gen.rot({"k": "q", "q": [0.3, 0.2, 0.1, 0.9]})), "labels": [case["sys"], case["tex"]["fam"]], "residual": e}


def large_case(systems):
    """The top of the stated range (1000..2000 grains, i.e. 5e5..2e6 pairs), with sizes around
    pair counts of 2^19, 1e6 and 2^20 planted, and a texture that is inhomogeneous along the
    grain list (random part followed by a tight cluster) so that losing or double-counting a
    block of pairs shows up as a dependence on grain order."""
    return st.fixed_dictionaries(
        {
            "sys": st.sampled_from(systems),
            "n": st.one_of(st.sampled_from([1025, 1026, 1415, 1416, 1449, 1450, 2000]), st.integers(1000, 2000)),
            "split": st.floats(0.3, 0.7),
            "seed": gen.small_seed,
            "base": gen.generic_rotation_spec(),
            "perm": gen.small_seed,
        }
    )


def check_large_perm(case):
    n = case["n"]
    n1 = max(2, int(round(case["split"] * n)))
    rng = np.random.default_rng(case["seed"])
    A_rand = gen._random_rotations(rng, n1)
    base = gen.rot(case["base"])
    w = rng.normal(scale=0.03, size=(n - n1, 3))
    A_clu = np.stack([gen.axis_angle_matrix(v / max(np.linalg.norm(v), 1e-12), float(np.linalg.norm(v))) @ base for v in w])
    A = np.clip(np.concatenate([A_rand, A_clu]), -1.0, 1.0)
    system = _sys(case)
    m = _m(A, system)
    require(np.isfinite(m) and -1e-3 <= m <= 1 + 1e-3, f"M-index {m!r} outside [0,1] ({case['sys']}, {n} grains)")
    m_rev = _m(A[::-1], system)
    e = abs(m - m_rev)
    require(e <= 1e-9, f"M-index of {n} grains changes by {e:.3e} when the grain list is reversed ({case['sys']}: {m:.6f} -> {m_rev:.6f})", e)
    prm = np.random.default_rng(case["perm"]).permutation(n)
    m_sh = _m(A[prm], system)
    e2 = abs(m - m_sh)
    require(e2 <= 1e-9, f"M-index of {n} grains changes by {e2:.3e} when grains are shuffled ({case['sys']}: {m:.6f} -> {m_sh:.6f})", e2)
    return {"nontrivial": True, "labels": [case["sys"], "pairs>2^20" if n * (n - 1) // 2 > 2**20 else "pairs<=2^20"], "residual": max(e, e2)}


def check_range_perm_known_thetamax(case):
    """Known finding R2 (theta_max truncated to 90 for tetragonal/hexagonal): pairs beyond
    90 degrees fall outside the histogram (NaN for tiny sets); everything else still checked."""
    A = gen.orientations(case["tex"])
    if ref_mindex.pair_angles(A, case["sys"]).max() >= 89.5:
        raise Skip("known finding: pair beyond the truncated maximum angle")
    return check_range_perm_known_fewpairs(case)


def check_range_perm_known_fewpairs(case):
    """Known findings R1/R2: the (wrong) misorientation angles of *all* pairs can fall outside
    [0, theta_max], which leaves the histogram empty and the index NaN. This can only happen
    for sets of 2 or 3 grains (<= 3 pairs); exactly that outcome is tolerated there."""
    A = gen.orientations(case["tex"])
    if len(A) <= 3:
        m = float(sut(D.misorientation_index, np.ascontiguousarray(A), _sys(case)))
        if np.isnan(m):
            raise Skip("known finding: empty misorientation histogram for <= 3 pairs")
    return check_range_perm(case)


def check_frame(case):
    A = gen.orientations(case["tex"])
    system = _sys(case)
    Q = gen.rot(case["Q"])
    m = _m(A, system)
    mr = _m(A @ Q.T, system)
    e = abs(m - mr)
    # pairs sitting on a 1-degree bin edge may legitimately hop to the neighbouring bin
    n_edge, n_pairs = ref_mindex.edge_pairs(A, case["sys"])
    tol = (n_edge + 1.0) / n_pairs * 1.0 + 1e-9 if n_edge else 1e-6
    require(np.isfinite(m) and np.isfinite(mr) and e <= tol, f"M-index changes by {e:.3e} (> {tol:.2e}) under a rigid rotation of the sample frame ({case['sys']}: {m:.6f} -> {mr:.6f})", e)
    return {"nontrivial": _nontrivial(A, Q), "labels": [case["sys"], case["tex"]["fam"], "edge" if n_edge else "noedge"], "residual": e / tol}


def check_symmetry(case):
    system = _sys(case)
    ops = sym_rotations(case["sys"])
    if not ops:
        raise Skip("triclinic: no symmetry operations")
    A = gen.orientations(case["tex"])
    A2 = A.copy()
    used = 0
    for g in range(len(A)):
        op = case["ops"][g % len(case["ops"])]
        if op >= 0:
            A2[g] = ops[op % len(ops)] @ A[g]
            used += 1
    m = _m(A, system)
    ms = _m(A2, system)
    e = abs(m - ms)
    n_edge, n_pairs = ref_mindex.edge_pairs(A, case["sys"])
    tol = (n_edge + 1.0) / n_pairs + 1e-9 if n_edge else 1e-6
    require(np.isfinite(m) and np.isfinite(ms) and e <= tol, f"M-index changes by {e:.3e} (> {tol:.2e}) when grains are replaced by symmetry-equivalent orientations ({case['sys']}: {m:.6f} -> {ms:.6f})", e)
    return {"nontrivial": bool(used and len(A) >= 3 and np.abs(A - A[0]).max() > 1e-9), "labels": [case["sys"], "edge" if n_edge else "noedge"], "residual": e / tol}


def _single_limit(case, system):
    """Single-orientation textures in several generated frames (float32 rounding of the
    quaternions differs from frame to frame)."""
    for b in [case["base"]] + list(case.get("bases", [])):
        base = gen.rot(b)
        for reps in (2, 9):
            ms = _m(np.repeat(base[None], reps, axis=0), system)
            require(np.isfinite(ms) and ms >= 0.95, f"single-orientation texture ({reps} grains) has M = {ms:.4f}, not >= 0.95 ({case['sys']})", ms)
            require(ms <= 1 + 1e-3, f"single-orientation texture has M = {ms!r} > 1 ({case['sys']})")


def check_limits(case):
    system = _sys(case)
    n = case["n"]
    rng = np.random.default_rng(case["seed"])
    A = gen._random_rotations(rng, n)
    m = _m(A, system)
    # sampling level of a correct index for this very texture (independent reference)
    m_ref = ref_mindex.m_index(A, case["sys"])
    thr = m_ref + 0.02
    require(m <= thr, f"uniformly random texture of {n} grains has M = {m:.4f}; a correct index gives the sampling level {m_ref:.4f} (tolerance 0.02) ({case['sys']})", m)
    _single_limit(case, system)
    return {"nontrivial": True, "labels": [case["sys"], f"n{n // 50 * 50}"], "residual": m / thr}


def check_single_only(case):
    """Known finding R1/R2 for the uniform limit: the single-orientation limit still holds."""
    system = _sys(case)
    _single_limit(case, system)
    return {"nontrivial": True, "labels": [case["sys"], "single_only"], "residual": 0.0}


def check_axis_pairs(case):
    """Exhaustive: every 2-grain set of axis-aligned orientations (24 x 24), expressed in the
    generated frame Q: misorientations are exactly 0, 90, 120 or 180 degrees, i.e. on bin edges
    and on the upper end of the angle range; the index must be finite and in [0, 1]."""
    system = _sys(case)
    Q = gen.rot(case["Q"])
    n = 0
    for i, A1 in enumerate(gen.AXIS24):
        for A2 in gen.AXIS24[i:]:
            A = np.stack([A1 @ Q.T, A2 @ Q.T])
            m = _m(A, system)
            require(np.isfinite(m) and -1e-3 <= m <= 1 + 1e-3, f"M-index {m!r} outside [0,1] for a 2-grain set of axis-aligned orientations ({case['sys']})")
            n += 1
    return {"nontrivial": True, "labels": [case["sys"], f"pairs{n}"], "residual": 0.0}


def check_density(case):
    """Theoretical random-misorientation density integrates to 1 over [0, theta_max]."""
    system = _sys(case)
    tmax = S._max_misorientation(system)
    nb = case["bins"]
    edges = np.linspace(0, tmax, nb + 1)
    vals = [sut(S.misorientations_random, float(lo), float(hi), system) for lo, hi in zip(edges[:-1], edges[1:])]
    require(np.all(np.isfinite(vals)) and min(vals) >= -1e-12, f"theoretical density negative or non-finite ({case['sys']})")
    tot = float(np.sum(np.asarray(vals) * np.diff(edges)))
    require(abs(tot - 1) <= 1e-3, f"theoretical misorientation density integrates to {tot:.6f} over [0,{tmax}] ({case['sys']})", abs(tot - 1))
    return {"nontrivial": True, "labels": [case["sys"], f"bins{nb}"], "residual": abs(tot - 1)}


def batched_case():
    return st.fixed_dictionaries(
        {
            "sys": st.sampled_from(SYSTEMS),
            "n": st.integers(2, 24),
            "tex": st.lists(gen.texture_spec(24, 24, 8, families=["random", "clustered", "girdle", "single"]), min_size=1, max_size=8),
            "ncpus": st.integers(1, 16),
            "pool": st.sampled_from(["internal", "external"]),
        }
    )


def check_batched(case):
    system = _sys(case)
    n = case["n"]
    stack = np.stack([gen.orientations(t)[:n] for t in case["tex"]])
    singles = np.array([_m(s, system) for s in stack])
    if case["pool"] == "internal":
        out = sut(D.misorientation_indices, stack, system, ncpus=case["ncpus"])
    else:
        with mp.get_context("fork").Pool(case["ncpus"]) as pool:
            out = sut(D.misorientation_indices, stack, system, pool=pool)
    out = np.asarray(out, dtype=float)
    require(out.shape == singles.shape, f"batched result has shape {out.shape}, expected {singles.shape}")
    require(
        np.array_equal(out, singles, equal_nan=True),
        f"batched M-indices {out.tolist()} differ from the per-snapshot values {singles.tolist()} (order or value; {case['ncpus']} workers, {case['pool']} pool)",
    )
    distinct = len(set(np.round(singles, 12))) >= 2
    return {
        "nontrivial": bool(len(stack) >= 2 and case["ncpus"] >= 2 and distinct),
        "labels": [case["sys"], case["pool"], f"workers{case['ncpus']}", f"stack{len(stack)}"],
        "residual": 0.0,
    }


def by_sys(case):
    return case["sys"]


ORACLES = [
    Oracle(
        "range_permutation",
        m_case(60),
        check_range_perm,
        classify=by_sys,
        known_models={
            "tetragonal": check_range_perm_known_thetamax,
            "hexagonal": check_range_perm_known_thetamax,
            "orthorhombic": check_range_perm_known_fewpairs,
        },
        quick=120,
        thorough=800,
    ),
    Oracle("permutation_large", large_case(["triclinic"]), check_large_perm, classify=by_sys, quick=4, thorough=16),
    Oracle("frame_rotation", m_case(60), check_frame, classify=by_sys, quick=120, thorough=800),
    Oracle("symmetry_relabel", m_case(60), check_symmetry, classify=by_sys, quick=120, thorough=800),
    Oracle(
        "uniform_and_single",
        st.fixed_dictionaries(
            {"sys": st.sampled_from(SYSTEMS), "n": st.integers(60, 160), "seed": gen.small_seed, "base": gen.rotation_spec(), "bases": st.lists(gen.generic_rotation_spec(), min_size=6, max_size=6)}
        ),
        check_limits,
        classify=by_sys,
        known_models={k: check_single_only for k in ("monoclinic", "orthorhombic", "tetragonal", "hexagonal")},
        quick=18,
        thorough=40,
    ),
    Oracle(
        "uniform_and_single_large",
        st.fixed_dictionaries(
            {"sys": st.sampled_from(SYSTEMS), "n": st.integers(250, 400), "seed": gen.small_seed, "base": gen.rotation_spec()}
        ),
        check_limits,
        classify=by_sys,
        known_models={k: check_single_only for k in ("monoclinic", "orthorhombic", "tetragonal", "hexagonal")},
        quick=0,
        thorough=3,
    ),
    Oracle(
        "density_integral",
        st.fixed_dictionaries({"sys": st.sampled_from(SYSTEMS), "bins": st.sampled_from([90, 180, 360, 720])}),
        check_density,
        classify=by_sys,
        quick=40,
        thorough=60,
    ),
    Oracle(
        "axis_aligned_pairs_exhaustive",
        st.fixed_dictionaries({"sys": st.sampled_from(["triclinic", "monoclinic"]), "Q": st.sampled_from([{"k": "ax", "i": 0}, {"k": "ax", "i": 5}, {"k": "e90", "a": [1, 2, 3]}])}),
        check_axis_pairs,
        classify=by_sys,
        quick=4,
        thorough=2,
    ),
    Oracle("batched_equals_single", batched_case(), check_batched, classify=by_sys, quick=16, thorough=10),
]
SHARDS = {"quick": 4, "thorough": 16}
