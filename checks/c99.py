"""C99 — harness self-test (not a property of PyDRex, not registered in MANIFEST.json).

`tools/selftest.sh` drives it to show that the machinery reports what it should:
a violation is found, shrunk and replayable; known findings print KNOWN-FINDING lines and
are excluded while their witness fails, and are searched again once it stops failing;
errors in an oracle are harness errors (exit 2), never VIOLATION lines.
"""

import os

from hypothesis import strategies as st

from vlib.harness import Oracle, Skip, require

RULE = "integers 0..10000 with a 'kind' label; non-trivial = value >= 10"
MODE = os.environ.get("SELFTEST_MODE", "ok")


def check_value(case):
    v = case["v"]
    if MODE == "abort" and v >= 9000:
        os.abort()  # the code under test kills the interpreter on this input
    if MODE == "abort_once" and v >= 9000 and not os.environ.get("VERIF_REPLAYING"):
        os.abort()  # dies in the shard but not when replayed: not attributable
    if MODE == "harness_error" and v > 5000:
        raise RuntimeError("bug in the oracle itself")
    if MODE in ("fail", "fail_known") and case["kind"] == "b" and v >= 777:
        require(False, f"value {v} of kind b is >= 777", v)
    if MODE == "fail_known" and case["kind"] == "c" and v >= 42:
        require(False, f"value {v} of kind c is >= 42", v)
    return {"nontrivial": v >= 10, "labels": [case["kind"]], "residual": 0.0}


ORACLES = [
    Oracle(
        "value",
        st.fixed_dictionaries({"v": st.integers(0, 10000), "kind": st.sampled_from(["a", "b", "c"])}),
        check_value,
        classify=lambda c: c["kind"],
        quick=300,
        thorough=300,
    )
]
SHARDS = {"quick": 2, "thorough": 2} if MODE in ("abort", "abort_once") else {"quick": 1, "thorough": 1}
