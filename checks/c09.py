"""C09 — grain-boundary sliding: small grains are floored and do not rotate."""

import numpy as np
from hypothesis import strategies as st

from pydrex import core as _core
from pydrex import utils as _utils

from vlib import gen, hist
from vlib.harness import Oracle, Rejected, Skip, require, sut

RULE = (
    "Function level: apply_gbs on generated (n in 1..64, orientations, previous "
    "orientations, non-negative volume vectors summing to ~1 with many / none / some grains "
    "below chi/n and values placed exactly at the threshold, chi in [0,1)) against a "
    "5-line numpy reference written from the statement. History level: Mineral updates "
    "(2..30 grains, chi in [0.2,0.9] or 0, M* in [50,200] so that grains shrink through the "
    "threshold, 1..4 updates) with pydrex.utils.apply_gbs observed through a recording "
    "wrapper: after every update the stored snapshot must be the floor of the integrated "
    "state as the statement describes; every accepted regime (dislocation types, matrix "
    "diffusion, viscosity bounds), set on the mineral or per update through get_regime. "
    "Non-trivial: at least one grain floored and at "
    "least one not (function level: additionally n>=3); distinct = distinct canonical JSON."
)
ASSUMPTIONS = [
    "the integrated (pre-floor) state of an update is taken from the inputs of the last apply_gbs call of that update, observed through the public attribute pydrex.utils.apply_gbs",
]


def ref_gbs(A, f, chi, A_prev, n):
    thr = chi / n
    mask = f < thr
    A_out = np.where(mask[:, None, None], A_prev, A)
    f_out = np.where(mask, thr, f)
    return A_out, f_out / f_out.sum(), mask


def gbs_case():
    return st.fixed_dictionaries(
        {
            "tex": gen.texture_spec(1, 64, 8),
            "prev_seed": gen.small_seed,
            "vol": gen.volume_spec(),
            "chi": st.one_of(st.just(0.0), st.floats(0.0, 0.999), st.just(0.3)),
            "at_thr": st.lists(st.integers(0, 63), max_size=4),  # indices set exactly to chi/n
            "below": st.lists(st.tuples(st.integers(0, 63), st.floats(0.0, 0.999)), max_size=6),
        }
    )


def check_gbs_function(case):
    A = gen.orientations(case["tex"])
    n = len(A)
    rng = np.random.default_rng(case["prev_seed"])
    A_prev = gen._random_rotations(rng, n)
    f = gen.volumes(case["vol"], n)
    chi = case["chi"]
    thr = chi / n
    for i in case["at_thr"]:
        f[i % n] = thr
    for i, frac in case["below"]:
        f[i % n] = thr * frac
    if not f.sum() > 0:
        raise Skip("all-zero volumes")
    A_in, f_in, P_in = A.copy(), f.copy(), A_prev.copy()
    A_ref, f_ref, mask = ref_gbs(A, f, chi, A_prev, n)
    A_out, f_out = sut(_utils.apply_gbs, A_in, f_in, chi, P_in, n)
    require(A_out.shape == (n, 3, 3) and f_out.shape == (n,), "output shapes")
    require(np.array_equal(P_in, A_prev), "apply_gbs modified the reference (previous) orientations")
    require(np.array_equal(A_out[mask], A_prev[mask]), "floored grain does not keep its previous orientation byte-for-byte")
    require(np.array_equal(A_out[~mask], A[~mask]), "unfloored grain's orientation was altered")
    e = float(np.abs(f_out - f_ref).max())
    require(e <= 1e-13, f"fractions differ from floor+renormalise reference by {e:.3e}", e)
    require(abs(f_out.sum() - 1.0) <= 1e-12, f"fractions not renormalised: sum={f_out.sum()!r}")
    # consequences
    if chi > 0:
        lo = chi / (n * (1 + chi))
        require(f_out.min() >= lo * (1 - 1e-12), f"stored fraction {f_out.min():.3e} below chi/(n(1+chi)) = {lo:.3e} although input sums to {f.sum():.6f}") if abs(f.sum() - 1) < 1e-9 else None
    else:
        require(not mask.any(), "reference mask non-empty for chi=0")
        require(np.array_equal(A_out, A), "chi=0 froze a grain")
        require(np.allclose(f_out, f / f.sum(), rtol=1e-13, atol=0), "chi=0 floored a grain")
    # ordering of volumes preserved (ties allowed)
    order = np.argsort(f, kind="stable")
    require(np.all(np.diff(f_out[order]) >= -1e-18), "ordering of grain volumes not preserved")
    nm = int(mask.sum())
    return {
        "nontrivial": bool(0 < nm < n and n >= 3),
        "labels": [f"floored{'0' if nm == 0 else ('all' if nm == n else 'some')}", "chi0" if chi == 0 else "chi>0", "tie" if case["at_thr"] and chi > 0 else "notie"],
        "residual": e,
    }


def gbs_history_case():
    return st.fixed_dictionaries(
        {
            # every accepted regime: the sliding step does not depend on the deformation mechanism
            "min": hist.mineral_spec(2, 30, regimes=(4, 6, 4, 6, 0, 1, 7)),
            # optional per-update regimes handed over through the get_regime callback
            "cb": st.one_of(st.none(), st.none(), st.lists(st.sampled_from([4, 6, 4, 0, 1, 7]), min_size=1, max_size=5)),
            "par": hist.param_spec(
                chi=st.one_of(st.floats(0.2, 0.9), st.floats(0.2, 0.9), st.just(0.0)),  # first branch = Hypothesis' favourite
                M=st.floats(50.0, 200.0),
            ),
            "F0": hist.f0_spec(),
            "flow": hist.flow_spec(2.0),
            "cuts": hist.cuts_spec(4),
        }
    )


def check_gbs_history(case):
    ms = case["min"]
    mineral = hist.build_mineral(ms)
    n = hist.mineral_n(ms)
    phase = gen.FABRICS[ms["pf"]][0]
    chi = case["par"]["chi"]
    params = hist.params_dict(case["par"], (phase,), (1.0,), n)
    flow = hist.Flow(case["flow"])
    F = hist.f0(case["F0"])
    taus = hist.tau_points(flow.T, case["cuts"])
    thr = chi / n
    any_mixed = False
    regimes_seen = set()
    unobserved = False
    worst = 0.0
    for k, (ta, tb) in enumerate(zip(taus[:-1], taus[1:])):
        A_start = mineral.orientations[-1].copy()
        get_regime = None
        if case.get("cb"):
            rk = case["cb"][k % len(case["cb"])]
            regimes_seen.add(rk)
            get_regime = lambda t, x, rk=rk: _core.DeformationRegime(rk)  # noqa: E731
        else:
            regimes_seen.add(ms["regime"])
        with hist.GbsRecorder(keep="all") as rec:
            F = hist.update(mineral, params, F, flow, ta, tb, get_regime=get_regime)
        if not rec.calls:
            # The sliding step is not reached through pydrex.utils.apply_gbs (e.g. refactored call
            # path): the pre-floor state is not observable; only the black-box consequences remain.
            f_new = mineral.fractions[-1]
            require(abs(f_new.sum() - 1) <= 1e-12, "stored fractions do not sum to 1")
            if chi > 0:
                lo = chi / (n * (1 + chi))
                require(f_new.min() >= lo * (1 - 1e-9), f"update {k + 1}: stored fraction {f_new.min():.3e} below chi/(n(1+chi))={lo:.3e}")
            unobserved = True
            continue
        for c in rec.calls:
            require(c["chi"] == chi and c["n"] == n, f"apply_gbs called with threshold {c['chi']} / n {c['n']} instead of {chi} / {n}")
            require(np.array_equal(c["prev"], A_start), "reference orientations handed to the sliding step are not the snapshot at the start of the update")
        last = rec.calls[-1]
        A_int, f_int = last["o_in"], last["f_in"]  # integrated state at the end of the update
        A_new, f_new = mineral.orientations[-1], mineral.fractions[-1]
        mask = f_int < thr
        # floored grains keep exactly the orientation they had at the start of the update
        require(np.array_equal(A_new[mask], A_start[mask]), f"update {k + 1}: a floored grain does not hold its start-of-update orientation byte-for-byte")
        # the others keep their integrated orientation and relative volumes
        require(np.array_equal(A_new[~mask], A_int[~mask]), f"update {k + 1}: an unfloored grain does not hold its integrated orientation")
        f_ref = np.where(mask, thr, f_int)
        f_ref = f_ref / f_ref.sum()
        e = float(np.abs(f_new - f_ref).max())
        require(e <= 1e-14, f"update {k + 1}: stored fractions differ from floor(chi/n)+renormalise of the integrated fractions by {e:.3e}", e)
        worst = max(worst, e)
        require(abs(f_new.sum() - 1) <= 1e-12, "stored fractions do not sum to 1")
        if chi > 0:
            lo = chi / (n * (1 + chi))
            require(f_new.min() >= lo * (1 - 1e-9), f"update {k + 1}: stored fraction {f_new.min():.3e} below chi/(n(1+chi))={lo:.3e}")
        else:
            require(not mask.any(), "chi=0 but a grain counted as floored")
        if (~mask).sum() >= 2:
            # volume ratios among unfloored grains are those of the integrated state
            i = np.flatnonzero(~mask)
            r_new = f_new[i] / f_new[i].sum()
            r_int = f_int[i] / f_int[i].sum()
            require(float(np.abs(r_new - r_int).max()) <= 1e-13, f"update {k + 1}: relative volumes of unfloored grains changed")
        order = np.argsort(f_int, kind="stable")
        require(np.all(np.diff(f_new[order]) >= -1e-17), f"update {k + 1}: ordering of grain volumes not preserved")
        if 0 < mask.sum() < n:
            any_mixed = True
    return {
        "nontrivial": any_mixed,
        "labels": ["chi0" if chi == 0 else "chi>0", "mixed" if any_mixed else "nomix", gen.FABRICS[ms["pf"]][2]]
        + (["sliding_step_unobserved"] if unobserved else [])
        + (["non_dislocation_regime"] if regimes_seen & {0, 1, 7} else [])
        + (["regime_callback"] if case.get("cb") else []),
        "residual": worst,
    }


SHARDS = {"quick": 8, "thorough": 16}
ORACLES = [
    Oracle("apply_gbs_reference", gbs_case(), check_gbs_function, quick=3000, thorough=20000),
    Oracle("history_floor", gbs_history_case(), check_gbs_history, quick=128, thorough=1200, shrink_seconds=180),
]
