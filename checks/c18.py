"""C18 — analytic flows are self-consistent and pathlines follow them inside the domain."""

import math

import numpy as np
from hypothesis import strategies as st
from scipy.integrate import solve_ivp

from pydrex import pathlines as P
from pydrex import utils as U
from pydrex import velocity as V

from vlib import gen
from vlib.harness import Oracle, Rejected, Skip, Violation, require, sut

RULE = (
    "Pointwise cases: flow family (simple_shear_2d, cell_2d, corner_2d) x the six ordered "
    "axis pairs x amplitude 10^[-15,2] x cell size 10^[-2,6] x a point of the domain "
    "(cell: inside the box; corner flow: at least 1e-6*scale from the singular origin; "
    "simple shear: anywhere within 1e6). Pathline cases: same flows, a box, a final "
    "location inside the box (>=1% of the box away from every boundary), strain limit in "
    "[0.1,5], optional regular resampling (pointwise cases also re-evaluate the first point "
    "after a call elsewhere: pure functions, results handed out earlier are not "
    "overwritten). Strain-increment cases: dt in +-10^[-6,16] and any "
    "3x3 velocity gradient of scale 10^[-16,3]. Non-trivial: point >=1% of the box away "
    "from every boundary and coordinate axis (pointwise); pathline with >=5 timestamps; "
    "non-symmetric L (strain increment); distinct = distinct canonical JSON."
)
ASSUMPTIONS = [
    "Jacobian reference: closed-form derivative of the documented velocity formula AND a Richardson-extrapolated central difference of the velocity callable itself",
    "pathline reference: independent backward solve_ivp(DOP853, rtol 1e-10) from the same end point, compared where the LSODA (rtol 1e-5) solution should agree within 1e-3 of the box size",
]

PAIRS = [("X", "Y"), ("X", "Z"), ("Y", "X"), ("Y", "Z"), ("Z", "X"), ("Z", "Y")]
IDX = {"X": 0, "Y": 1, "Z": 2}


def flow_spec():
    return st.fixed_dictionaries(
        {
            "fam": st.sampled_from(["simple_shear_2d", "cell_2d", "corner_2d"]),
            "pair": st.integers(0, 5),
            "amp_e": st.floats(-15.0, 2.0),
            "size_e": st.floats(-2.0, 6.0),
            # exact zeros (points on the coordinate axes / the ridge axis of the corner flow) are planted
            "p": st.lists(st.one_of(st.floats(-0.99, 0.99), st.just(0.0), st.sampled_from([0.5, -0.5, 0.25])), min_size=3, max_size=3),
        }
    )


def make_flow(fs):
    a, b = PAIRS[fs["pair"]]
    amp = 10.0 ** fs["amp_e"]
    size = 10.0 ** fs["size_e"]
    if fs["fam"] == "simple_shear_2d":
        u, L = sut(V.simple_shear_2d, a, b, amp)
    elif fs["fam"] == "cell_2d":
        u, L = sut(V.cell_2d, a, b, amp, size)
    else:
        u, L = sut(V.corner_2d, a, b, amp)
    return u, L, IDX[a], IDX[b], amp, size


def point_of(fs, i, j, size):
    k = 3 - i - j
    x = np.zeros(3)
    p = fs["p"]
    if fs["fam"] == "cell_2d":
        x[i] = p[0] * size / 2
        x[j] = p[1] * size / 2
        x[k] = p[2] * size
    elif fs["fam"] == "corner_2d":
        # horizontal >= 0 away from the ridge, vertical <= 0 (below the surface)
        # the ridge axis (horizontal = 0) and the surface (vertical = 0) belong to the domain;
        # only the singular origin is avoided
        x[i] = p[0] * size  # both sides of the ridge axis (the flow is mirror-symmetric)
        x[j] = -abs(p[1]) * size
        if math.hypot(x[i], x[j]) < 1e-6 * size:
            x[j] = -1e-3 * size
        x[k] = p[2] * size
    else:
        x[i] = p[0] * size
        x[j] = p[1] * size
        x[k] = p[2] * size
    return x


def closed_form_jacobian(fs, x, i, j, amp, size):
    """d u_a / d x_b from the documented velocity formulas (written independently)."""
    J = np.zeros((3, 3))
    if fs["fam"] == "simple_shear_2d":
        # u_dir = x_plane * strain_rate
        J[i, j] = amp
    elif fs["fam"] == "cell_2d":
        # u_h = U cos(pi x/d) sin(pi z/d); u_v = -U sin(pi x/d) cos(pi z/d)
        k = math.pi / size
        cx, sx = math.cos(k * x[i]), math.sin(k * x[i])
        cz, sz = math.cos(k * x[j]), math.sin(k * x[j])
        J[i, i] = -amp * k * sx * sz
        J[i, j] = amp * k * cx * cz
        J[j, i] = -amp * k * cx * cz
        J[j, j] = amp * k * sx * sz
    else:
        # u_x = 2U/pi [atan2(x,-z) + x z/(x^2+z^2)], u_z = 2U/pi z^2/(x^2+z^2)
        h, v = x[i], x[j]
        r2 = h * h + v * v
        c = 4 * amp / (math.pi * r2 * r2)
        J[i, i] = -c * h * h * v
        J[i, j] = c * h**3
        J[j, i] = -c * h * v * v
        J[j, j] = c * h * h * v
    return J


def numeric_jacobian(u, x, h):
    def cd(step):
        J = np.zeros((3, 3))
        for b in range(3):
            e = np.zeros(3)
            e[b] = step
            J[:, b] = (np.asarray(u(np.nan, x + e)) - np.asarray(u(np.nan, x - e))) / (2 * step)
        return J

    return (4 * cd(h / 2) - cd(h)) / 3  # Richardson


def _pointwise(case, model):
    fs = case
    u, L, i, j, amp, size = make_flow(fs)
    x = point_of(fs, i, j, size)
    x_in = x.copy()
    L_first = sut(L, np.nan, x)
    u_first = sut(u, np.nan, x)
    Lx = np.array(L_first, dtype=float)
    ux = np.array(u_first, dtype=float)
    require(np.array_equal(x, x_in), "the flow callables modified the position they were given")
    require(Lx.shape == (3, 3) and ux.shape == (3,), f"shapes {Lx.shape}, {ux.shape}")
    # pure functions of the position: the same point gives the same answer after calls
    # elsewhere, and answers handed out earlier are not overwritten by later calls
    x_other = 0.9 * x  # stays inside every flow's domain
    x_other[i] += 0.01 * size
    x_other[j] -= 0.01 * size
    sut(L, np.nan, x_other), sut(u, np.nan, x_other)
    require(np.array_equal(np.asarray(L_first, dtype=float), Lx) and np.array_equal(np.asarray(u_first, dtype=float), ux), "a result handed out earlier was overwritten by a later call at another point")
    require(np.array_equal(np.asarray(sut(L, np.nan, x), dtype=float), Lx) and np.array_equal(np.asarray(sut(u, np.nan, x), dtype=float), ux), "the same point gives a different velocity or gradient after a call at another point")
    require(np.all(np.isfinite(Lx)) and np.all(np.isfinite(ux)), "non-finite velocity or gradient at an interior point")
    J = closed_form_jacobian(fs, x, i, j, amp, size)
    # natural magnitude of the gradient (the closed form may vanish identically, e.g. on the
    # ridge axis of the corner flow)
    natural = {"simple_shear_2d": amp, "cell_2d": amp * math.pi / size, "corner_2d": amp / max(math.hypot(x[i], x[j]), 1e-300)}[fs["fam"]]
    scale = max(np.abs(J).max(), natural)
    if model == "doubled":  # known finding: simple_shear_2d returns exactly twice the Jacobian
        J_expect = 2 * J
    elif model == "cell_swapped":  # known finding: entries of the vertical row exchanged
        J_expect = J.copy()
        J_expect[j, j], J_expect[j, i] = J[j, i], J[j, j]
    else:
        J_expect = J
    e = float(np.abs(Lx - J_expect).max()) / scale
    what = "the spatial Jacobian of the velocity" if model is None else f"the known ({model}) form"
    require(e <= 1e-9, f"{fs['fam']}({PAIRS[fs['pair']]}): velocity gradient differs from {what} by {e:.3e} (relative)", e)
    res = e
    if model is None:
        tr = abs(np.trace(Lx)) / scale
        require(tr <= 1e-9, f"{fs['fam']}: velocity gradient has trace {np.trace(Lx):.3e} (relative {tr:.3e})", tr)
        # the velocity callable itself agrees with the closed form (finite differences)
        hstep = 1e-3 * (size if fs["fam"] != "simple_shear_2d" else max(size, 1.0))
        if fs["fam"] == "corner_2d":
            hstep = 1e-3 * math.hypot(x[i], x[j])  # smooth everywhere except at the origin
        if fs["fam"] == "cell_2d":
            hstep = min(hstep, 0.5 * (size / 2 - max(abs(x[i]), abs(x[j]))))
        if hstep > 0:
            Jn = numeric_jacobian(u, x, hstep)
            en = float(np.abs(Jn - Lx).max()) / scale
            require(en <= 1e-5, f"{fs['fam']}: velocity gradient differs from the finite-difference Jacobian of the velocity callable by {en:.3e}", en)
            res = max(res, en)
    # out-of-plane components vanish
    k = 3 - i - j
    require(ux[k] == 0 and np.all(Lx[k, :] == 0) and np.all(Lx[:, k] == 0), "flow is not confined to the chosen plane")
    p = fs["p"]
    interior = min(1 - abs(p[0]), 1 - abs(p[1])) >= 0.01 and min(abs(p[0]), abs(p[1])) >= 0.01
    return {"nontrivial": bool(interior), "labels": [fs["fam"], "".join(PAIRS[fs["pair"]])], "residual": res}


def check_pointwise(case):
    return _pointwise(case, None)


def classify_flow(case):
    return case["fam"] if "fam" in case else case["flow"]["fam"]


# pathlines ------------------------------------------------------------------------------


def path_case():
    return st.fixed_dictionaries(
        {
            "flow": flow_spec(),
            "end": st.lists(st.floats(0.01, 0.99), min_size=2, max_size=2),
            "max_strain": st.floats(0.1, 5.0),
            "regular": st.one_of(st.none(), st.integers(2, 60)),
            "box": st.floats(0.3, 1.0),
        }
    )


def _box_and_end(case, i, j, size, amp):
    fs = case["flow"]
    lo = np.zeros(3)
    hi = np.zeros(3)
    if fs["fam"] == "cell_2d":
        half = size / 2 * case["box"]
        lo[i], hi[i] = -half, half
        lo[j], hi[j] = -half, half
    elif fs["fam"] == "corner_2d":
        lo[i], hi[i] = 0.0, 5 * size
        lo[j], hi[j] = -size, 0.0
    else:
        lo[i], hi[i] = -size, size
        lo[j], hi[j] = -size, size
    e = case["end"]
    end = np.zeros(3)
    end[i] = lo[i] + e[0] * (hi[i] - lo[i])
    end[j] = lo[j] + e[1] * (hi[j] - lo[j])
    return lo, hi, end


def check_pathline_known(case):
    """Known finding: the terminal event of get_pathline keeps state between calls, so
    scipy's root finder occasionally sees no sign change and raises ValueError. That exact
    failure is tolerated (counted as rejected); everything else is still checked."""
    return check_pathline(case, tolerate_rootfinder=True)


def check_pathline(case, tolerate_rootfinder=False):
    fs = dict(case["flow"])
    # keep the time to reach the strain limit well inside the 100 Myr integration window
    fs["amp_e"] = max(fs["amp_e"], -12.0 + fs["size_e"]) if fs["fam"] != "simple_shear_2d" else max(fs["amp_e"], -13.0)
    u, L, i, j, amp, size = make_flow(fs)
    lo, hi, end = _box_and_end(dict(case, flow=fs), i, j, size, amp)
    box = float(max(hi[i] - lo[i], hi[j] - lo[j]))
    kw = {} if case["regular"] is None else {"regular_steps": case["regular"]}
    try:
        ts, pos = sut(P.get_pathline, end, u, L, lo, hi, case["max_strain"], **kw)
    except Violation as v:
        if tolerate_rootfinder and "ValueError: f(a) and f(b) must have different signs" in str(v):
            raise Rejected(ValueError("root finder: f(a) and f(b) must have different signs")) from None
        raise
    ts = np.asarray(ts, dtype=float)
    require(ts.ndim == 1 and len(ts) >= 2, f"pathline has {len(ts)} timestamps")
    require(np.all(np.diff(ts) > 0), "timestamps are not strictly increasing")
    require(ts[-1] == 0.0, f"timestamps end at {ts[-1]!r}, not 0")
    if case["regular"] is not None:
        require(len(ts) == case["regular"] + 1, f"{len(ts)} timestamps for regular_steps={case['regular']}")
    x0 = np.asarray(pos(0.0), dtype=float)
    e0 = float(np.abs(x0 - end).max()) / box
    require(e0 <= 1e-9, f"pathline does not end at the requested final location (off by {e0:.3e} of the box)", e0)
    # independent backward integration from the end point over the same time span
    def rhs(t, y):
        inside = np.all(y >= lo - 1e-9 * box) and np.all(y <= hi + 1e-9 * box)
        return np.asarray(u(np.nan, np.clip(y, lo, hi))) if inside else np.zeros(3)

    ref = solve_ivp(rhs, (0.0, ts[0]), end, method="DOP853", rtol=1e-10, atol=1e-12 * box, dense_output=True)
    if not ref.success:
        raise Skip("reference integration failed")
    worst = e0
    tol_in = 1e-3 * box
    # sample the interpolant densely
    tt = np.unique(np.concatenate([ts, np.linspace(ts[0], 0.0, 200)]))
    strain = 0.0
    prev_t = None
    prev_rate = None
    for t in tt[::-1]:  # from 0 backwards
        x = np.asarray(pos(t), dtype=float)
        require(np.all(np.isfinite(x)), "pathline position not finite")
        out = max(float(np.max(lo - x)), float(np.max(x - hi)))
        require(out <= tol_in, f"pathline leaves the domain box by {out / box:.3e} of its size at t={t:.3e}", out / box)
        xr = ref.sol(t)
        ij = [i, j]  # the out-of-plane coordinate has a degenerate box [0, 0]
        inside_ref = np.all(xr[ij] > lo[ij] + 2 * tol_in) and np.all(xr[ij] < hi[ij] - 2 * tol_in)
        if inside_ref:
            d = float(np.abs(x - xr).max())
            require(d <= tol_in, f"pathline deviates from dx/dt=u(x) (independent integration) by {d / box:.3e} of the box at t={t:.3e}", d / box)
            worst = max(worst, d / box)
        Lx = np.asarray(L(np.nan, np.clip(x, lo, hi)), dtype=float)
        rate = float(np.abs(np.linalg.eigvalsh((Lx + Lx.T) / 2)).max())
        if prev_t is not None:
            strain += 0.5 * (rate + prev_rate) * (prev_t - t)
        prev_t, prev_rate = t, rate
    require(strain <= 1.25 * case["max_strain"] + 1e-9, f"strain accumulated along the pathline {strain:.4f} exceeds 1.25 x the requested maximum {case['max_strain']:.4f}", strain / case["max_strain"])
    return {
        "nontrivial": len(ts) >= 5,
        "labels": [fs["fam"], "".join(PAIRS[fs["pair"]]), "regular" if case["regular"] else "solver_steps", "strain_limited" if strain >= 0.9 * case["max_strain"] else "boundary_limited"],
        "residual": worst,
    }


# strain increment -----------------------------------------------------------------------


def check_strain_increment(case):
    L = np.asarray(case["L"], dtype=float).reshape(3, 3) * 10.0 ** case["le"]
    dt = case["sign"] * 10.0 ** case["te"]
    got = float(sut(U.strain_increment, dt, L))
    ref = abs(dt) * float(np.abs(np.linalg.eigvalsh((L + L.T) / 2)).max())
    e = abs(got - ref) / max(ref, 1e-300)
    require(np.isfinite(got) and (e <= 1e-10 or abs(got - ref) <= 1e-300), f"strain_increment({dt:.3e}, L) = {got!r}, expected |dt| max|eig D| = {ref!r}", e)
    return {"nontrivial": bool(np.abs(L - L.T).max() > 0), "labels": ["dt<0" if dt < 0 else "dt>0"], "residual": e}


ORACLES = [
    Oracle(
        "jacobian_trace",
        flow_spec(),
        check_pointwise,
        classify=classify_flow,
        known_models={"simple_shear_2d": lambda c: _pointwise(c, "doubled"), "cell_2d": lambda c: _pointwise(c, "cell_swapped")},
        quick=1500,
        thorough=8000,
    ),
    Oracle(
        "pathline",
        path_case(),
        check_pathline,
        classify=lambda c: "any",
        known_models={"any": check_pathline_known},
        quick=80,
        thorough=1000,
        shrink_seconds=120,
    ),
    Oracle(
        "strain_increment",
        st.fixed_dictionaries(
            {
                "L": st.lists(st.floats(-1.0, 1.0), min_size=9, max_size=9),
                "le": st.floats(-16.0, 3.0),
                "te": st.floats(-6.0, 16.0),
                "sign": st.sampled_from([1.0, -1.0]),
            }
        ),
        check_strain_increment,
        quick=600,
        thorough=4000,
    ),
]
SHARDS = {"quick": 4, "thorough": 16}
