"""C16 — SCSV save/read round trip is lossless; invalid schemas and data are refused."""

import cmath
import csv
import io
import keyword
import math
import os
import shutil
import tempfile

import numpy as np
from hypothesis import strategies as st

from pydrex import exceptions as _err
from pydrex import io as _io

from vlib.harness import Oracle, Skip, Violation, require, sut

RULE = (
    "Schemas: delimiter = one printable ASCII character other than the double quote and "
    "space, or a tab; missing marker = '' or printable text (ASCII/Unicode letters, marks, "
    "numbers, punctuation, symbols, inner spaces) that does not contain the delimiter, has "
    "no surrounding whitespace and does not parse as an int/float/complex/boolean literal "
    "(so that no numeric cell can render as the marker); 1..8 fields with distinct "
    "non-keyword identifier names not starting with an underscore (namedtuple rules), types "
    "over the five cell types, fills of the field's type (strings incl. '', YAML-significant "
    "text such as yes/~/1.50/a: b/#x/quotes; floats incl. NaN and +-inf; big ints; complex; "
    "numeric fills also in string form as the terse-schema parser produces), optional units "
    "incl. '%'. Data: 1..10 rows (and tiled tables of up to 1e4 rows) of cells in the representable domain "
    "(strings without surrounding whitespace/line breaks/control characters and different "
    "from the marker, deliberately including '---', quotes, the delimiter, '#'; cells equal "
    "to the fill are planted). A second family builds the schema through the terse-schema "
    "parser. Faults: one of {drop top-level key, drop a field name, no fields, "
    "non-identifier name, unknown type, numeric field without fill, delimiter equal to / "
    "contained in the marker, unequal column lengths, too many / too few columns, cell not "
    "parseable as its type (on save, and planted into a valid file before reading)}. "
    "Non-trivial: >=2 distinct types, >=1 cell equal to its fill and >=1 cell that needs CSV "
    "quoting; for faults every case; distinct = distinct canonical JSON."
)
ASSUMPTIONS = [
    "booleans are never written as the missing marker (the format spec says boolean columns cannot have missing values): marker placement is only asserted for the other four types",
    "numeric values are compared with == (NaN-aware per component): the sign of a zero equal to the fill is not preserved by design of 'cell equal to fill'",
    "an over-long delimiter is rejected by the csv module with TypeError, which the repository's own suite asserts; accepted as a refusal",
    "files are written and read as UTF-8 (PYTHONUTF8=1)",
]

TYPES = ["string", "integer", "float", "boolean", "complex"]
DELIMS = [chr(c) for c in range(33, 127) if chr(c) != '"'] + ["\t"]

# Explicit alphabets (drawn with sampled_from and joined) instead of st.characters():
# Hypothesis 6.168's shrinker raised an internal ValueError when string nodes of text
# strategies with different category-based alphabets were spliced into one another.
ALPHABET = [chr(c) for c in range(32, 127)] + list("\u00a0\u00e9\u00df\u03a9\u2014\u201e\u4e2d\u0301\u00b0\u00b5\u20ac\u2192\u00ab\u00bb\u2026\U0001f600\u05d0\u0639")
_text_chars = st.sampled_from(ALPHABET)


def _text(alphabet, max_size):
    return st.lists(alphabet, max_size=max_size).map("".join)


def _clean(s):
    return s.strip()


SPECIAL_STRINGS = ["", "---", "yes", "no", "~", "null", "1.50", "007", "a: b", "#x", "x #y", "'", '"', "it's", '""', "- a", "[a]", "{a}", "&a", "*a", "!a", "%a", "@a", "`a", "true", "NaN", "1e5", "0x1F", "None", ">", "|", "? a", "a,b", "a;b", "a\\b", "\\", "\\n"]
text = st.one_of(st.sampled_from(SPECIAL_STRINGS), _text(_text_chars, 12).map(_clean), _text(st.sampled_from(list("ab,;:#'\"-\\ é")), 6).map(_clean))

ints = st.one_of(st.integers(-5, 5), st.integers(-(10**30), 10**30), st.just(999999))
floats = st.one_of(
    st.floats(allow_nan=True, allow_infinity=True),
    st.sampled_from([0.0, -0.0, 1.5, 1e-5, 1e20, 1e-320, float("nan"), float("inf"), float("-inf"), 0.1]),
)
complexes = st.lists(floats, min_size=2, max_size=2)  # [re, im]: JSON-able raw form of a complex cell
bools = st.booleans()
CELL = {"string": text, "integer": ints, "float": floats, "boolean": bools, "complex": complexes}

_ID0 = list("abcxyzABCXYZ\u00e9\u03a9")
_ID1 = _ID0 + list("0123456789_")
_idents = st.builds(lambda a, b: a + "".join(b), st.sampled_from(_ID0), st.lists(st.sampled_from(_ID1), max_size=7)).filter(
    lambda s: s.isidentifier() and not keyword.iskeyword(s) and not keyword.issoftkeyword(s)
)
_uident = _idents


def _is_literal(s):
    t = s.strip()
    if t.lower() in ("yes", "true", "t", "1", "no", "false", "f", "0", "nan", "inf", "none", ""):
        return t != ""
    for fn in (int, float, complex):
        try:
            fn(t)
            return True
        except ValueError:
            pass
    return False


marker_text = st.one_of(st.sampled_from(["-", "", "N/A", "missing", "--", "?", "n/a", "—", "NA", "*", "'", "m'", "#", "- -", ".", "..."]), text)


def _fix_marker(m, delim):
    """Construct (rather than filter) a legal marker: drop the delimiter, surrounding
    whitespace, and avoid anything that parses as a numeric/boolean literal."""
    m = m.replace(delim, "").strip()
    if _is_literal(m):
        m = "<" + m + ">" if delim not in "<>" else "[" + m + "]"
    return m


def _not_marker(s, marker):
    return s if s != marker else (s + "x")


@st.composite
def field_spec(draw, idx, types=TYPES):
    typ = draw(st.sampled_from(types))
    d = {"name": None, "type": typ}
    explicit_type = True
    if typ == "string":
        explicit_type = draw(st.booleans())
        if draw(st.booleans()) or not explicit_type:
            pass
        if draw(st.booleans()):
            d["fill"] = draw(text)
    elif typ == "boolean":
        if draw(st.booleans()):
            d["fill"] = draw(bools)
    else:
        v = draw(CELL[typ])
        form = draw(st.sampled_from(["typed", "str"]))
        if form == "str":
            if typ == "float" and v != v:
                v = "NaN"
            elif typ == "complex" and (v[0] != v[0] and v[1] == 0):
                v = "NaN"
            else:
                v = str(_val(typ, v))
        d["fill"] = v
    if not explicit_type:
        del d["type"]
    if draw(st.booleans()):
        d["unit"] = draw(st.sampled_from(["m", "percent", "%", "1/s", "m s^-1", "GPa", "#", "a: b", "'", "deg C", "..."]))
    return d


@st.composite
def table(draw, max_rows=40, sparse=False):
    # everyday delimiters (comma, tab, semicolon, pipe) are over-sampled, as is the empty marker
    if sparse:  # numeric tables with everyday delimiters/markers and rows that are missing entirely
        delim = draw(st.sampled_from(["\t", ",", ";", "|", "\t"]))
        marker = _fix_marker(draw(st.sampled_from(["", "-", "", "NA"])), delim)
    else:
        delim = draw(st.one_of(st.sampled_from([",", "\t", ";", "|", "\t"]), st.sampled_from(DELIMS)))
        marker = _fix_marker(draw(st.one_of(marker_text, st.sampled_from(["", "-", ""]))), delim)
    nf = draw(st.integers(1, 8))
    names = draw(st.lists(st.one_of(_idents, _idents, _uident), min_size=nf, max_size=nf, unique=True))
    fields = []
    # a third of the tables are purely numeric (like the bundled data files): every cell of a
    # row can then be missing at once
    types = ["integer", "float", "complex"] if sparse else draw(st.sampled_from([TYPES, TYPES, ["integer", "float", "complex"]]))
    for i in range(nf):
        f = draw(field_spec(i, types))
        f["name"] = names[i]
        fields.append(f)
    nrows = draw(st.integers(1, max_rows))
    cols = []
    for f in fields:
        typ = f.get("type", "string")
        base = CELL[typ]
        if typ == "string":
            base = base.map(lambda s, m=marker: _not_marker(s, m))
        if "fill" in f and typ != "boolean":
            fv = _typed_fill(typ, f["fill"])
            if not (typ == "string" and fv == marker):
                base = st.one_of(base, st.just(_raw(typ, fv)))
        col = draw(st.lists(base, min_size=nrows, max_size=nrows))
        cols.append(col)
    # plant a row in which every cell that can be missing equals its fill
    if sparse or draw(st.booleans()):
        r = draw(st.integers(0, nrows - 1))
        for f, col in zip(fields, cols):
            typ = f.get("type", "string")
            if typ == "boolean":
                continue
            fv = _typed_fill(typ, f.get("fill", ""))
            if not (typ == "string" and fv == marker):
                col[r] = _raw(typ, fv)
    as_array = draw(st.booleans())
    return {"delimiter": delim, "missing": marker, "fields": fields, "cols": cols, "as_array": as_array}


def _val(typ, raw):
    """Raw (JSON-able) cell -> Python value."""
    if typ == "complex" and isinstance(raw, (list, tuple)):
        return complex(raw[0], raw[1])
    return raw


def _raw(typ, v):
    if typ == "complex" and isinstance(v, complex):
        return [v.real, v.imag]
    return v


def _typed_fill(typ, fill):
    """The fill as a value of the column's Python type (what a reader must return)."""
    fill = _val(typ, fill)
    if typ == "string":
        return str(fill)
    if typ == "integer":
        return int(fill)
    if typ == "float":
        return float("nan") if fill == "NaN" else float(fill)
    if typ == "complex":
        return complex(float("nan")) if fill == "NaN" else complex(fill)
    return bool(fill)


def _same(a, b, typ):
    if typ == "float":
        return (a != a and b != b) or a == b
    if typ == "complex":
        return _same(a.real, b.real, "float") and _same(a.imag, b.imag, "float")
    return a == b and type(a) is type(b)


def _is_missing(typ, cell, fillv):
    if typ == "boolean":
        return False
    if typ in ("float", "complex"):
        return bool((cmath.isnan(cell) and cmath.isnan(fillv)) or cell == fillv)
    return cell == fillv


def _schema(case):
    fields = []
    for f in case["fields"]:
        f = dict(f)
        if "fill" in f:
            f["fill"] = _val(f.get("type", "string"), f["fill"])
        fields.append(f)
    return {"delimiter": case["delimiter"], "missing": case["missing"], "fields": fields}


def _cols(case):
    return [[_val(f.get("type", "string"), c) for c in col] for f, col in zip(case["fields"], case["cols"])]


def _data(case):
    out = []
    kinds = {"float": "f", "integer": "i", "boolean": "b", "complex": "c"}
    for f, col in zip(case["fields"], _cols(case)):
        typ = f.get("type", "string")
        if case.get("as_array") and typ in kinds:
            try:
                arr = np.array(col)
                if arr.dtype.kind == kinds[typ]:
                    out.append(arr)
                    continue
            except OverflowError:
                pass
        out.append(list(col))
    return out


class _Tmp:
    def __enter__(self):
        self.d = tempfile.mkdtemp(prefix="c16_")
        return self.d

    def __exit__(self, *a):
        shutil.rmtree(self.d, ignore_errors=True)


def _raw_cells(path, delim):
    """Independent reading of the CSV body (text cells), after the second '---' fence."""
    with open(path, encoding="utf-8", newline="") as f:
        txt = f.read()
    lines = txt.split("\n")
    fences = [i for i, l in enumerate(lines) if l == "---"]
    body = "\n".join(lines[fences[1] + 1 :])
    rows = [r for r in csv.reader(io.StringIO(body), delimiter=delim) if r != []]
    return rows


def check_roundtrip(case):
    schema = _schema(case)
    data = _data(case)
    fields = case["fields"]
    types = [f.get("type", "string") for f in fields]
    with _Tmp() as d:
        path = os.path.join(d, "t.scsv")
        import copy

        schema_before = copy.deepcopy(schema)
        sut(_io.save_scsv, path, schema, data)
        require(schema == schema_before or str(schema) == str(schema_before), "save_scsv modified the schema dictionary it was given")
        out = sut(_io.read_scsv, path)
        raw = _raw_cells(path, case["delimiter"])
    names = [f["name"] for f in fields]
    require(list(out._fields) == names, f"field names {list(out._fields)} != {names}")
    cols = _cols(case)
    nrows = len(cols[0])
    n_missing = 0
    for j, (f, typ, col) in enumerate(zip(fields, types, cols)):
        got = getattr(out, f["name"])
        require(len(got) == nrows, f"column {f['name']}: {len(got)} rows read back, {nrows} written")
        fillv = _typed_fill(typ, f.get("fill", "" if typ == "string" else False))
        for i, cell in enumerate(col):
            miss = _is_missing(typ, cell, fillv)
            expect = fillv if miss else cell
            pytype = {"string": str, "integer": int, "float": float, "boolean": bool, "complex": complex}[typ]
            g = got[i]
            require(isinstance(g, pytype) and (typ == "boolean" or not isinstance(g, bool) or typ == "integer" and False), f"column {f['name']} ({typ}) row {i}: read back {g!r} of type {type(g).__name__}")
            require(_same(pytype(expect), g, typ), f"column {f['name']} ({typ}, fill {f.get('fill', '<none>')!r}) row {i}: wrote {cell!r}, read back {g!r}, expected {expect!r}")
            n_missing += miss
    # marker placement in the file text (non-boolean columns)
    require(len(raw) == nrows + 1, f"file has {len(raw) - 1} data rows, expected {nrows}")
    for i in range(nrows):
        require(len(raw[i + 1]) == len(fields), f"data row {i} has {len(raw[i + 1])} cells")
        for j, (f, typ, col) in enumerate(zip(fields, types, cols)):
            if typ == "boolean":
                continue
            fillv = _typed_fill(typ, f.get("fill", ""))
            miss = _is_missing(typ, col[i], fillv)
            is_marker = raw[i + 1][j] == case["missing"]
            require(miss == is_marker, f"column {f['name']} row {i}: cell {col[i]!r} (fill {fillv!r}) written as {raw[i + 1][j]!r}; marker is {case['missing']!r}")
    needs_quote = any(
        isinstance(c, str) and (case["delimiter"] in c or '"' in c) for col in cols for c in col
    )
    return {
        "nontrivial": bool(len(set(types)) >= 2 and n_missing >= 1 and needs_quote),
        "labels": [f"fields{len(fields)}", "missing" if n_missing else "nomissing", "quoted" if needs_quote else "plain"] + sorted(set(types)),
        "residual": 0.0,
    }


def classify_rt(case):
    """Coarse class of a round-trip case, used to tell apart root causes."""
    special = set()
    for f in case["fields"]:
        typ = f.get("type", "string")
        if typ == "string" and "fill" in f:
            special.add("strfill")
        if "unit" in f and f["unit"] in ("%", "#", "a: b", "'"):
            special.add("unit")
    if case["delimiter"] in "'\\#" or "'" in case["missing"] or "\\" in case["missing"]:
        special.add("quote_delim_marker")
    for f, col in zip(case["fields"], case["cols"]):
        if f.get("type", "string") == "string" and len(case["fields"]) == 1 and "---" in col:
            special.add("fence_row")
    return "+".join(sorted(special)) or "plain"


# terse schema ---------------------------------------------------------------------------


@st.composite
def terse_case(draw):
    delim = draw(st.sampled_from([c for c in DELIMS if c not in "dm:()"]))
    marker = draw(st.sampled_from(["-", "N/A", "?", "--", "NA", "*"]).filter(lambda m: delim not in m))
    nf = draw(st.integers(1, 6))
    names = draw(st.lists(_idents, min_size=nf, max_size=nf, unique=True))
    specs = []
    fields = []
    for nme in names:
        t = draw(st.sampled_from(["", "s", "i", "f", "b", "c"]))
        typ = {"": "string", "s": "string", "i": "integer", "f": "float", "b": "boolean", "c": "complex"}[t]
        fill = None
        unit = None
        if typ in ("integer", "float", "complex"):
            fill = {"integer": draw(st.sampled_from(["999999", "-1", "0"])), "float": draw(st.sampled_from(["NaN", "0.0", "-1.5", "inf"])), "complex": draw(st.sampled_from(["NaN", "1j", "0"]))}[typ]
        elif typ == "string" and t == "s" and draw(st.booleans()):
            fill = draw(st.sampled_from(["N/A", "none", "x", "yes", "~"]))
        if fill is not None and draw(st.booleans()):
            unit = draw(st.sampled_from(["m", "%", "1/s", "..."]))
        spec = t
        if fill is not None:
            spec += ":" + fill
        if unit is not None:
            spec += ":" + unit
        specs.append(f"{nme}({spec})")
        f = {"name": nme, "type": typ, "fill": fill if fill is not None else ""}
        if unit is not None:
            f["unit"] = unit
        fields.append(f)
    nrows = draw(st.integers(1, 8))
    cols = []
    for f in fields:
        typ = f["type"]
        base = CELL[typ]
        if typ == "string":
            base = base.map(lambda s, m=marker: _not_marker(s, m))
        if typ not in ("boolean",):
            fv = _typed_fill(typ, f["fill"])
            if not (typ == "string" and fv == marker):
                base = st.one_of(base, st.just(_raw(typ, fv)))
        cols.append(draw(st.lists(base, min_size=nrows, max_size=nrows)))
    return {"terse": f"d{delim}m{marker}:" + "".join(specs), "delimiter": delim, "missing": marker, "fields": fields, "cols": cols}


def check_terse(case):
    schema = sut(_io.parse_scsv_schema, case["terse"])
    want = {"delimiter": case["delimiter"], "missing": case["missing"], "fields": case["fields"]}
    require(schema == want, f"terse schema {case['terse']!r} parsed to {schema!r}, expected {want!r}")
    c2 = dict(case)
    c2["fields"] = schema["fields"]
    return check_roundtrip(c2)


# faults -----------------------------------------------------------------------------------

FAULTS = [
    "drop_delimiter", "drop_missing", "drop_fields", "drop_name", "no_fields", "bad_name", "bad_type", "numeric_nofill",
    "delim_eq_missing", "delim_in_missing", "unequal_columns", "extra_column", "missing_column", "bad_cell_save", "bad_cell_read", "long_delimiter",
    "header_mismatch_read",
]


@st.composite
def fault_case(draw):
    base = draw(table(6))
    return {"base": base, "fault": draw(st.sampled_from(FAULTS)), "k": draw(st.integers(0, 100)), "junk": draw(st.sampled_from(["abc", "1.2.3", "--", "1,5", "0x", "one"]))}


def check_fault(case):
    base = case["base"]
    schema = _schema(base)
    data = _data(base)
    fault = case["fault"]
    k = case["k"]
    fields = schema["fields"]
    nf = len(fields)
    read_side = False
    allowed = (_err.SCSVError,)
    numeric_cols = [i for i, f in enumerate(fields) if f.get("type", "string") in ("integer", "float", "complex")]
    if fault == "drop_delimiter":
        del schema["delimiter"]
    elif fault == "drop_missing":
        del schema["missing"]
    elif fault == "drop_fields":
        del schema["fields"]
    elif fault == "drop_name":
        del fields[k % nf]["name"]
    elif fault == "no_fields":
        schema["fields"] = []
        data = data[:1]
    elif fault == "bad_name":
        fields[k % nf]["name"] = ["bad name", "1abc", "a-b", "", "a.b", "x y"][k % 6]
    elif fault == "bad_type":
        fields[k % nf]["type"] = ["int", "str", "number", "String", "datetime"][k % 5]
    elif fault == "numeric_nofill":
        i = k % nf
        fields[i]["type"] = ["integer", "float", "complex"][k % 3]
        fields[i].pop("fill", None)
        data[i] = [1] * len(data[i])
    elif fault == "delim_eq_missing":
        schema["missing"] = schema["delimiter"]
    elif fault == "delim_in_missing":
        schema["missing"] = "a" + schema["delimiter"] + "b"
    elif fault == "unequal_columns":
        if nf < 2:
            raise Skip("needs two columns")
        i = 1 + k % (nf - 1)
        data[i] = list(data[i]) + [data[i][0]]
    elif fault == "extra_column":
        data = data + [list(data[0])]
    elif fault == "missing_column":
        if nf < 2:
            raise Skip("needs two columns")
        data = data[:-1]
    elif fault == "bad_cell_save":
        if not numeric_cols:
            raise Skip("no numeric column")
        if case["junk"] == schema["missing"]:
            raise Skip("junk equals the missing marker")
        i = numeric_cols[k % len(numeric_cols)]
        col = list(data[i])
        col[k % len(col)] = case["junk"]
        data[i] = col
    elif fault == "long_delimiter":
        schema["delimiter"] = schema["delimiter"] * 2
        if schema["delimiter"] in schema["missing"]:
            raise Skip("marker contains doubled delimiter")
        allowed = (_err.SCSVError, TypeError)
    elif fault in ("bad_cell_read", "header_mismatch_read"):
        read_side = True
        if fault == "bad_cell_read" and not numeric_cols:
            raise Skip("no numeric column")
    with _Tmp() as d:
        path = os.path.join(d, "t.scsv")
        if not read_side:
            try:
                _io.save_scsv(path, schema, data)
            except allowed:
                require(not os.path.exists(path) or True, "")
                return {"nontrivial": True, "labels": [fault], "residual": 0.0}
            except Exception as e:  # noqa: BLE001
                raise Violation(f"fault {fault}: save_scsv raised {type(e).__name__} instead of SCSVError: {str(e)[:150]}")
            raise Violation(f"fault {fault}: save_scsv accepted the invalid schema/data")
        # read-side faults: corrupt a valid file
        try:
            _io.save_scsv(path, schema, data)
            _io.read_scsv(path)
        except Exception:  # noqa: BLE001
            raise Skip("base case does not round-trip (covered by the round-trip oracle)")
        with open(path, encoding="utf-8", newline="") as f:
            txt = f.read()
        lines = txt.split("\n")
        fences = [i for i, l in enumerate(lines) if l == "---"]
        head, body = lines[: fences[1] + 1], lines[fences[1] + 1 :]
        rows = list(csv.reader(io.StringIO("\n".join(body)), delimiter=schema["delimiter"]))
        rows = [r for r in rows if r != []]
        if fault == "bad_cell_read":
            i = numeric_cols[k % len(numeric_cols)]
            junk = case["junk"]
            if junk == schema["missing"]:
                raise Skip("junk equals marker")
            rows[1 + k % (len(rows) - 1)][i] = junk
        else:
            rows[0][k % nf] = rows[0][k % nf] + "x"
        buf = io.StringIO()
        w = csv.writer(buf, delimiter=schema["delimiter"], lineterminator="\n")
        w.writerows(rows)
        with open(path, "w", encoding="utf-8", newline="") as f:
            f.write("\n".join(head) + "\n" + buf.getvalue())
        try:
            _io.read_scsv(path)
        except _err.SCSVError:
            return {"nontrivial": True, "labels": [fault], "residual": 0.0}
        except Exception as e:  # noqa: BLE001
            raise Violation(f"fault {fault}: read_scsv raised {type(e).__name__} instead of SCSVError: {str(e)[:150]}")
        raise Violation(f"fault {fault}: read_scsv accepted the corrupted file")


ORACLES = [
    Oracle("roundtrip", table(10), check_roundtrip, classify=classify_rt, quick=600, thorough=3000),
    Oracle("roundtrip_missing_rows", table(6, sparse=True), check_roundtrip, classify=classify_rt, quick=150, thorough=1000),
    Oracle("terse_schema_roundtrip", terse_case(), check_terse, classify=lambda c: "terse", quick=200, thorough=1000),
    Oracle("faults_refused", fault_case(), check_fault, classify=lambda c: c["fault"], quick=500, thorough=2000),
    Oracle(
        "roundtrip_long",
        st.builds(lambda t, k: dict(t, cols=[list(c) * k for c in t["cols"]]), table(6), st.integers(10, 1700)),
        check_roundtrip,
        classify=classify_rt,
        quick=4,
        thorough=20,
    ),
]
