"""C01 — every stored texture snapshot is a valid texture, after any update history."""

import numpy as np
from hypothesis import strategies as st

import pydrex
from pydrex import core as _core
from pydrex import minerals as _minerals

from vlib import gen, hist
from vlib.harness import Oracle, Rejected, Skip, Violation, require, sut

RULE = (
    "A case is a whole update history: mineral (6 phase/fabric pairs x accepted regimes "
    "{matrix_dislocation, frictional_yielding, matrix_diffusion, min/max_viscosity}; 2..40 "
    "grains quick, up to 1000 thorough; initial texture explicit/random/clustered/girdle/"
    "single-orientation with uniform/explicit/gamma/dominant/zero-containing volumes, or "
    "default-constructed from a seed), parameters (M* in [0,200], chi in [0,0.9], lambda* "
    "in [0,10], p in [1,2], n in [2,5]), starting F, velocity-gradient history "
    "L(t,x)=s*[L0+a1 sin(w tau)L1+a2 tanh(c.x)L2] along a fixed/linear/circular pathline "
    "with rate scale s=10^u, u in [-16,3], total dimensionless time T<=2 (quick), and a "
    "partition into 1..12 (quick) / 1..100 (thorough) updates, each update issued through "
    "update_orientations, update_all, or with a get_regime callback that switches among "
    "accepted regimes. One mineral in six starts from 0/+-1 direction-cosine matrices handed "
    "over as an integer-typed array (others: C/Fortran/component-first/strided float64); "
    "steady velocity gradients are one array object returned by every callback call "
    "(integer-typed when integral); the parameter dictionary, starting F and every array "
    "handed out by a callback are audited for in-place modification after every update. The "
    "validity invariant is evaluated after every update. Non-trivial: "
    ">=2 updates, accumulated strain >=0.2 and not (olivine A under axis-aligned simple "
    "shear); distinct = distinct canonical JSON of the history."
)
ASSUMPTIONS = [
    "accumulated strain = trapezoid integral (801 points) of max|eig D| along the generated history",
    "an update that raises IterationError (LSODA failure) is 'rejected', not a violation; its effect on the stored history is C07's claim",
]


def history_case(max_n=40, max_updates=12, max_T=2.0, regimes=(4, 6, 4, 6, 1, 0, 7)):
    return st.fixed_dictionaries(
        {
            "min": hist.mineral_spec(2, max_n, regimes=regimes),
            "par": hist.param_spec(),
            "F0": hist.f0_spec(large=True),
            "flow": hist.flow_spec(max_T),
            "cuts": hist.cuts_spec(max_updates),
            "modes": st.lists(st.integers(0, 2), min_size=1, max_size=6),
            "regime2": st.sampled_from([4, 6, 1, 0, 7]),
        }
    )


def regimes_used(case):
    used = {case["min"]["regime"]}
    n_upd = len(case["cuts"]) + 1
    modes = case["modes"]
    if any(modes[i % len(modes)] == 2 for i in range(n_upd)):
        used.add(case["regime2"])
    return used


def classify(case):
    used = regimes_used(case)
    if 1 in used:
        return "matrix_diffusion"
    if used & {0, 7}:
        return "viscosity_bound"
    return "dislocation"


def check_history(case, orthonormality=True):
    ms = case["min"]
    mineral = hist.build_mineral(ms)
    n = hist.mineral_n(ms)
    phase = gen.FABRICS[ms["pf"]][0]
    params = hist.params_dict(case["par"], (phase,), (1.0,), n)
    flow = hist.Flow(case["flow"])
    F = hist.f0(case["F0"])
    taus = hist.tau_points(flow.T, case["cuts"])
    hist.validity(mineral.orientations[0], mineral.fractions[0], n, 5e-3, "initial snapshot")
    prev_bytes = hist.snapshot_bytes(mineral)
    strain = 0.0
    worst = 0.0
    modes = case["modes"]
    r_init = ms["regime"]
    r2 = case["regime2"]
    rejected = 0
    for k, (ta, tb) in enumerate(zip(taus[:-1], taus[1:])):
        mode = modes[k % len(modes)]
        strain += flow.strain(ta, tb, 201)
        get_regime = None
        if mode == 2:
            tm = flow.t_of(0.5 * (ta + tb))
            get_regime = (lambda t, x, tm=tm: _core.DeformationRegime(r2 if t >= tm else r_init))  # noqa: E731
        try:
            if mode == 1:
                F = hist.update_bulk([mineral], params, F, flow, ta, tb)
            else:
                F = hist.update(mineral, params, F, flow, ta, tb, get_regime=get_regime)
        except Rejected:
            rejected += 1
            break
        N = k + 1
        require(
            len(mineral.orientations) == N + 1 and len(mineral.fractions) == N + 1,
            f"update {N} did not append exactly one snapshot (lengths {len(mineral.orientations)}, {len(mineral.fractions)})",
        )
        ob, fb = hist.snapshot_bytes(mineral)
        require(ob[:-1] == prev_bytes[0] and fb[:-1] == prev_bytes[1], f"update {N} altered an earlier snapshot")
        prev_bytes = (ob, fb)
        bound = 5e-3 + 1e-3 * (N + 2 * strain) if orthonormality else np.inf
        dev = hist.validity(mineral.orientations[-1], mineral.fractions[-1], n, bound, f"snapshot {N} (strain {strain:.3f})")
        worst = max(worst, dev / bound)
        require(np.all(np.isfinite(F)) and F.shape == (3, 3), "returned deformation gradient not finite 3x3")
    n_upd = len(taus) - 1
    fam = case["flow"]["L0"]
    trivial_flow = ms["pf"] == 0 and fam["fam"] == "simple" and fam["Q"]["k"] == "ax" and case["flow"]["a1"] == 0 and case["flow"]["a2"] == 0
    if rejected:
        raise Rejected(RuntimeError("IterationError"))
    return {
        "nontrivial": bool(n_upd >= 2 and strain >= 0.2 and not trivial_flow),
        "labels": [
            gen.FABRICS[ms["pf"]][2],
            classify(case),
            f"updates{min(n_upd, 10)}",
            f"u{int(case['flow']['u'] // 4 * 4)}",
            ms["init"],
            "chi>0" if case["par"]["chi"] > 0 else "chi=0",
        ],
        "residual": worst,
    }


def check_default(case):
    """Default-constructed minerals are valid and reproducible from their seed."""
    phase, fabric, _ = gen.FABRICS[case["pf"]]
    kw = dict(
        phase=_core.MineralPhase(phase),
        fabric=_core.MineralFabric(fabric),
        regime=_core.DeformationRegime(case["regime"]),
        n_grains=case["n"],
        seed=case["seed"],
    )
    a = sut(_minerals.Mineral, **kw)
    b = sut(_minerals.Mineral, **kw)
    n = case["n"]
    require(len(a.orientations) == 1 and len(a.fractions) == 1, "default mineral does not hold exactly one snapshot")
    dev = hist.validity(a.orientations[0], a.fractions[0], n, 1e-9, "default-constructed snapshot")
    require(np.array_equal(a.fractions[0], np.full(n, 1.0 / n)), "default volumes are not uniform")
    require(
        a.orientations[0].tobytes() == b.orientations[0].tobytes() and a.fractions[0].tobytes() == b.fractions[0].tobytes(),
        "two constructions with the same seed differ",
    )
    c = sut(_minerals.Mineral, **dict(kw, seed=case["seed"] + 1))
    labels = []
    if n >= 2:
        require(not np.array_equal(c.orientations[0], a.orientations[0]), "different seeds give identical textures")
    return {"nontrivial": n >= 2, "labels": labels, "residual": dev}


def check_history_known_diffusion(case):
    """Known finding (matrix_diffusion): everything except orthonormality/handedness."""
    return check_history(case, orthonormality=False)


KNOWN_MODELS = {"matrix_diffusion": check_history_known_diffusion}
SHARDS = {"quick": 8, "thorough": 16}

ORACLES = [
    Oracle(
        "history_valid",
        history_case(40, 12, 2.0),
        check_history,
        classify=classify,
        known_models=KNOWN_MODELS,
        quick=160,
        thorough=1200,
        shrink_seconds=240,
    ),
    Oracle(
        # a run that is continued after a very large strain: the starting deformation gradient has
        # principal stretches up to 1e8 while the texture is still evolving (dislocation regimes)
        "history_valid_continued",
        st.builds(
            lambda c, e, R, Q, T: dict(
                c,
                F0={"k": "RS", "R": R, "Q": Q, "s": [10.0 ** (e[0] / 10.0), 10.0 ** (-e[1] / 20.0), 10.0 ** (-e[2] / 20.0)]},
                regime2=4 if c["regime2"] in (1, 0, 7) else c["regime2"],
                flow=dict(c["flow"], T=T),
            ),
            history_case(30, 6, 2.0, regimes=(4, 6)),
            st.lists(st.integers(30, 80), min_size=3, max_size=3),
            gen.rotation_spec(),
            gen.rotation_spec(),
            st.sampled_from([1.0, 1.5, 2.0]),
        ),
        check_history,
        classify=classify,
        quick=24,
        thorough=300,
        shrink_seconds=240,
    ),
    Oracle(
        "history_valid_long",
        history_case(24, 100, 6.0, regimes=(4, 6)).map(lambda c: dict(c, regime2=4 if c["regime2"] in (1, 0, 7) else c["regime2"])),
        check_history,
        classify=classify,
        quick=0,
        thorough=40,
        shrink_seconds=240,
    ),
    Oracle(
        "history_valid_large",
        st.builds(
            lambda c, n, seed: dict(c, regime2=6, min=dict(pf=c["min"]["pf"], regime=c["min"]["regime"], init="default", n=n, seed=seed)),
            history_case(8, 4, 1.0, regimes=(4, 6)),
            st.integers(300, 1000),
            gen.small_seed,
        ),
        check_history,
        classify=classify,
        quick=0,
        thorough=10,
        shrink_seconds=240,
    ),
    Oracle(
        "default_mineral",
        st.fixed_dictionaries(
            {
                "pf": st.integers(0, 5),
                "regime": st.sampled_from(hist.ACCEPTED_REGIMES),
                "n": st.integers(1, 400),
                "seed": gen.small_seed,
            }
        ),
        check_default,
        quick=160,
        thorough=300,
    ),
]
