"""C19 — parameter records and configuration files mean what they declare."""

import ast
import dataclasses
import inspect
import json
import math
import os
import pathlib
import shutil
import tempfile

import numpy as np
from hypothesis import strategies as st

import pydrex
from pydrex import core as _core
from pydrex import exceptions as _err
from pydrex import io as _io
from pydrex import mock as _mock

from vlib.harness import Oracle, Skip, Violation, require, sut

RULE = (
    "Records: every field of DefaultParams with generated overrides. Presets: every class "
    "of pydrex.mock x every value it declares, extracted from the module source with ast "
    "(finite, enumerated exhaustively in one evaluation). Configuration files: TOML text "
    "generated from a model: input mode in {bundled mesh + final locations, built-in "
    "velocity gradient + initial locations, pre-computed path files (generated .npz), none}, "
    "any subset of the optional keys of [parameters] (13 keys), [output] (6 keys) and "
    "[input] (timestep where optional, strain_final), `name` present or absent, phase lists "
    "by name or ordinal in both orders with fractions k/1000, fabric letters A-E. Faults (one "
    "per case): fractions not summing to 1, length mismatch, unknown phase name, "
    "out-of-range phase ordinal, unknown fabric letter, missing [input], missing timestep, "
    "non-numeric timestep / strain_final, output phase not simulated / unknown, wrong number "
    "of disl_coefficients. Sequences: 2..4 configurations parsed in one process with every "
    "returned dictionary overwritten in place in between. "
    "Non-trivial: a configuration omitting >=1 optional key (parse "
    "oracle); every fault case; distinct = distinct canonical JSON."
)
ASSUMPTIONS = [
    "documented defaults are taken from the comments of the bundled spec files and from DefaultParams: fabric A, raw_output/diagnostics = all simulated phases, anisotropy = ['Voigt','hexaxis','moduli','%decomp'], paths None, log level WARNING, output directory = cwd, strain_final inf, timestep NaN only with path inputs",
    "sequence-valued parameters are compared as tuples (TOML arrays parse to lists)",
]

DATA = pathlib.Path(inspect.getfile(pydrex)).parent / "data"
MESH = str(DATA / "meshes" / "corner2d_2cmyr_5e5x1e5.vtu")
LOC_FINAL = str(DATA / "meshes" / "corner2d_2cmyr_5e5x1e5.scsv")
LOC_INITIAL = str(DATA / "specs" / "start.scsv")

# records ---------------------------------------------------------------------------------

OVERRIDES = {
    "stress_exponent": st.floats(1.0, 2.0),
    "deformation_exponent": st.floats(2.0, 5.0),
    "gbm_mobility": st.integers(0, 200),
    "gbs_threshold": st.floats(0.0, 0.9),
    "nucleation_efficiency": st.floats(0.0, 10.0),
    "number_of_grains": st.integers(1, 10000),
    "phase_fractions": st.just((0.6, 0.4)),
    "disl_Peierls_stress": st.floats(0.5, 5.0),
    "disl_lowtemp_switch": st.floats(0.1, 0.9),
}


# Defaults that the documentation states in numbers: the bundled spec files list them as the
# values used when a key is omitted ("Default values for simulation parameters are given
# below", "A-type by default") and the DefaultParams field docs cite their sources.
DOCUMENTED_DEFAULTS = {
    "stress_exponent": 1.5,
    "deformation_exponent": 3.5,
    "gbm_mobility": 125,
    "gbs_threshold": 0.3,
    "nucleation_efficiency": 5.0,
    "initial_olivine_fabric": _core.MineralFabric.olivine_A,
    "phase_assemblage": (_core.MineralPhase.olivine,),
    "phase_fractions": (1.0,),
}


def check_record(case):
    d = sut(_core.DefaultParams)
    for k, v in DOCUMENTED_DEFAULTS.items():
        require(getattr(d, k) == v, f"DefaultParams.{k} = {getattr(d, k)!r}, documented default is {v!r}")
    require(dataclasses.is_dataclass(d), "DefaultParams is not a dataclass")
    require(isinstance(hash(d), int), "DefaultParams not hashable")
    for name in list(d.as_dict()):
        try:
            setattr(d, name, 1)
        except dataclasses.FrozenInstanceError:
            continue
        except Exception as e:  # noqa: BLE001
            raise Violation(f"assigning to DefaultParams.{name} raised {type(e).__name__}, not FrozenInstanceError")
        raise Violation(f"DefaultParams.{name} is assignable: the record is not immutable")
    dd = d.as_dict()
    require(sut(_core.DefaultParams, **dd) == d, "DefaultParams(**d.as_dict()) != d")
    dd["number_of_grains"] = -1
    require(d.as_dict()["number_of_grains"] != -1, "as_dict() does not return a copy")
    ov = {k: (tuple(v) if isinstance(v, list) else v) for k, v in case["ov"].items()}
    p = sut(_core.DefaultParams, **ov)
    got = p.as_dict()
    want = dict(d.as_dict(), **ov)
    require(got == want, f"overrides do not round-trip through as_dict(): {got} != {want}")
    for k, v in want.items():
        require(getattr(p, k) == v, f"attribute {k} = {getattr(p, k)!r}, as_dict/declared {v!r}")
    require(sut(_core.DefaultParams, **got) == p and hash(sut(_core.DefaultParams, **got)) == hash(p), "round trip through the dictionary form is not an identity")
    return {"nontrivial": len(ov) >= 1, "labels": [f"overrides{len(ov)}"], "residual": 0.0}


def declared_presets():
    """{class name: {field: value}} extracted from the source of pydrex.mock with ast."""
    src = inspect.getsource(_mock)
    tree = ast.parse(src)
    ns = {"MineralPhase": _core.MineralPhase, "MineralFabric": _core.MineralFabric}
    out = {}
    for node in tree.body:
        if not isinstance(node, ast.ClassDef):
            continue
        vals = {}
        for stmt in node.body:
            target = value = None
            if isinstance(stmt, ast.Assign) and len(stmt.targets) == 1 and isinstance(stmt.targets[0], ast.Name):
                target, value = stmt.targets[0].id, stmt.value
            elif isinstance(stmt, ast.AnnAssign) and isinstance(stmt.target, ast.Name) and stmt.value is not None:
                target, value = stmt.target.id, stmt.value
            if target is not None:
                vals[target] = eval(compile(ast.Expression(value), "<mock>", "eval"), ns)  # noqa: S307
        out[node.name] = vals
    return out


def check_presets(case):
    decl = declared_presets()
    require(len(decl) >= 1, "no presets found in pydrex.mock")
    defaults = _core.DefaultParams().as_dict()
    n = 0
    for cname, vals in decl.items():
        cls = getattr(_mock, cname)
        require(issubclass(cls, _core.DefaultParams), f"{cname} is not a DefaultParams preset")
        inst = sut(cls)
        d = inst.as_dict()
        require(isinstance(hash(inst), int), f"{cname} instance not hashable")
        for k, v in vals.items():
            if k not in defaults:
                continue
            require(getattr(inst, k) == v, f"{cname}().{k} = {getattr(inst, k)!r} but the preset declares {v!r}")
            require(k in d and d[k] == v, f"{cname}().as_dict()['{k}'] = {d.get(k)!r} but the preset declares {v!r}")
            n += 1
        for k, v in defaults.items():
            if k not in vals:
                require(d[k] == v and getattr(inst, k) == v, f"{cname}: undeclared field {k} differs from the default")
        require(len(d["phase_assemblage"]) == len(d["phase_fractions"]), f"{cname}: phase lists of unequal length")
        require(abs(sum(d["phase_fractions"]) - 1) <= 1e-12, f"{cname}: phase fractions do not sum to 1")
        try:
            inst.gbm_mobility = 1
            raise Violation(f"{cname} instance is mutable")
        except dataclasses.FrozenInstanceError:
            pass
    return {"nontrivial": True, "labels": [f"presets{len(decl)}", f"values{n}"], "residual": 0.0}


# configuration files ----------------------------------------------------------------------

PARAM_KEYS = [
    "stress_exponent", "deformation_exponent", "gbm_mobility", "gbs_threshold", "nucleation_efficiency", "number_of_grains",
    "disl_Peierls_stress", "disl_prefactors", "diff_prefactors", "disl_lowtemp_switch", "disl_activation_energy",
    "disl_activation_volume", "diff_activation_energies", "diff_activation_volumes", "disl_coefficients",
]
PARAM_VALUES = {
    "stress_exponent": 1.25, "deformation_exponent": 3.0, "gbm_mobility": 10, "gbs_threshold": 0.2, "nucleation_efficiency": 4.5,
    "number_of_grains": 1234, "disl_Peierls_stress": 3.0, "disl_prefactors": [2e-16, 3e-17], "diff_prefactors": [2e-10, 3e-10],
    "disl_lowtemp_switch": 0.6, "disl_activation_energy": 500.0, "disl_activation_volume": 10.0,
    "diff_activation_energies": [400.0, 300.0], "diff_activation_volumes": [5.0, 6.0],
    "disl_coefficients": [4.4e8, -2.2e4, 3e-2, 1.3e-4, -42.0, 4.2e-2, -1.1e-5],
}


# falsy-but-legal values (e.g. the M*=0 and chi=0 presets of Kaminski 2001/2004)
PARAM_ZERO_VALUES = {"gbm_mobility": 0, "gbs_threshold": 0.0, "nucleation_efficiency": 0.0}


def config_case():
    return st.fixed_dictionaries(
        {
            "zeros": st.booleans(),
            "mode": st.sampled_from(["mesh", "velgrad", "paths", "none"]),
            "name": st.one_of(st.none(), st.sampled_from(["run1", "pydrex-test", "a b"])),
            "params_present": st.booleans(),
            "pkeys": st.lists(st.sampled_from(PARAM_KEYS), unique=True, max_size=len(PARAM_KEYS)),
            "phases": st.sampled_from([None, "ol", "en", "ol_en", "en_ol", "ol_en_ord", "en_ol_ord", "ol_ord"]),
            "k": st.integers(1, 999),
            "fabric": st.one_of(st.none(), st.sampled_from(list("ABCDE"))),
            "timestep": st.one_of(st.none(), st.sampled_from([1e9, 1, 2.5e10])),
            "strain_final": st.one_of(st.none(), st.sampled_from([2.5, 10, 0.5])),
            "output_present": st.booleans(),
            "directory": st.one_of(st.none(), st.sampled_from(["out", "../o2", "deep/er/out"])),
            "raw_output": st.one_of(st.none(), st.sampled_from(["all", "first", "empty"])),
            "diagnostics": st.one_of(st.none(), st.sampled_from(["all", "first", "empty"])),
            "anisotropy": st.one_of(st.none(), st.sampled_from([True, False, ["Voigt"], ["Voigt", "hexaxis"]])),
            "out_paths": st.one_of(st.none(), st.just(["p1.scsv"])),
            "log_level": st.one_of(st.none(), st.sampled_from(["DEBUG", "INFO", "ERROR"])),
            "fault": st.none(),
        }
    )


FAULTS = [
    "fractions_sum", "length_mismatch", "unknown_phase", "phase_ordinal_range", "unknown_fabric", "missing_input",
    "missing_timestep", "timestep_type", "strain_final_type", "output_phase_not_simulated", "output_phase_unknown",
    "disl_coefficients_count", "lowercase_fabric",
]


def fault_case():
    return st.builds(lambda c, f, j: dict(c, fault=f, j=j), config_case(), st.sampled_from(FAULTS), st.integers(0, 10))


def _toml_value(v):
    if isinstance(v, bool):
        return "true" if v else "false"
    if isinstance(v, str):
        return json.dumps(v)
    if isinstance(v, (list, tuple)):
        return "[" + ", ".join(_toml_value(x) for x in v) + "]"
    if isinstance(v, float):
        if math.isinf(v):
            return "inf" if v > 0 else "-inf"
        return repr(v)
    return str(v)


def _phases(case):
    ph = case["phases"]
    if ph is None:
        return None, None
    k = case["k"] / 1000.0
    table = {
        "ol": (["olivine"], [1.0]),
        "en": (["enstatite"], [1.0]),
        "ol_en": (["olivine", "enstatite"], [k, float(repr(round(1 - k, 3)))]),
        "en_ol": (["enstatite", "olivine"], [k, float(repr(round(1 - k, 3)))]),
        "ol_en_ord": ([0, 1], [k, float(repr(round(1 - k, 3)))]),
        "en_ol_ord": ([1, 0], [k, float(repr(round(1 - k, 3)))]),
        "ol_ord": ([0], [1.0]),
    }
    return table[ph]


def build_toml(case, tmp):
    """Return (toml text, expected dict, expect_fault)."""
    fault = case.get("fault")
    lines = []
    exp = {}
    if case["name"] is not None:
        lines.append(f"name = {_toml_value(case['name'])}")
    # ---- input
    mode = case["mode"]
    inp = {}
    exp_in = {"mesh": None, "locations_final": None, "velocity_gradient": None, "locations_initial": None, "paths": None}
    timestep = case["timestep"]
    if mode == "mesh":
        inp["mesh"] = MESH
        inp["locations_final"] = LOC_FINAL
        exp_in["mesh"] = "MESH"
        exp_in["locations_final"] = "LOC_FINAL"
    elif mode == "velgrad":
        inp["velocity_gradient"] = ["simple_shear_2d", "Y", "X", 5e-6]
        inp["locations_initial"] = LOC_INITIAL
        exp_in["velocity_gradient"] = "VELGRAD"
        exp_in["locations_initial"] = "LOC_INITIAL"
    elif mode == "paths":
        p = os.path.join(tmp, "path001.npz")
        np.savez(p, X_1=np.arange(3.0), t=np.arange(3.0))
        inp["paths"] = ["path001.npz"]
        exp_in["paths"] = "PATHS"
    if mode != "paths" and timestep is None and fault != "missing_timestep":
        timestep = 1e9
    if fault == "missing_timestep":
        timestep = None
        if mode == "paths":
            inp.pop("paths")
            mode = "none"
            exp_in["paths"] = None
    if timestep is not None:
        inp["timestep"] = timestep
    exp_in["timestep"] = timestep if timestep is not None else float("nan")
    if case["strain_final"] is not None:
        inp["strain_final"] = case["strain_final"]
    exp_in["strain_final"] = case["strain_final"] if case["strain_final"] is not None else float("inf")
    if fault == "timestep_type":
        inp["timestep"] = ["1e9", "soon"][case["j"] % 2]
    if fault == "strain_final_type":
        inp["strain_final"] = "ten"
    if fault != "missing_input":
        lines.append("[input]")
        for k, v in inp.items():
            lines.append(f"{k} = {_toml_value(v)}")
    # ---- parameters
    defaults = _core.DefaultParams().as_dict()
    exp_par = dict(defaults)
    par = {}
    names, fracs = _phases(case)
    if names is not None:
        par["phase_assemblage"] = names
        par["phase_fractions"] = fracs
        exp_par["phase_assemblage"] = tuple(_core.MineralPhase(x) if isinstance(x, int) else _core.MineralPhase[x] for x in names)
        exp_par["phase_fractions"] = tuple(fracs)
    if case["fabric"] is not None:
        par["initial_olivine_fabric"] = case["fabric"]
        exp_par["initial_olivine_fabric"] = _core.MineralFabric["olivine_" + case["fabric"]]
    for k in case["pkeys"]:
        val = PARAM_ZERO_VALUES[k] if case.get("zeros") and k in PARAM_ZERO_VALUES else PARAM_VALUES[k]
        par[k] = val
        exp_par[k] = tuple(val) if isinstance(val, list) else val
    if fault == "fractions_sum":
        par["phase_assemblage"] = ["olivine", "enstatite"]
        par["phase_fractions"] = [[0.7, 0.2], [0.5, 0.6], [0.7, 0.3000001]][case["j"] % 3]
    elif fault == "length_mismatch":
        par["phase_assemblage"] = [["olivine", "enstatite"], ["olivine"]][case["j"] % 2]
        par["phase_fractions"] = [[1.0], [0.5, 0.5]][case["j"] % 2]
    elif fault == "unknown_phase":
        par["phase_assemblage"] = [["olivine", "quartz"], ["Olivine", "enstatite"]][case["j"] % 2]
        par["phase_fractions"] = [0.5, 0.5]
    elif fault == "phase_ordinal_range":
        par["phase_assemblage"] = [[0, 2], [-1, 0], [7, 1]][case["j"] % 3]
        par["phase_fractions"] = [0.5, 0.5]
    elif fault == "unknown_fabric":
        par["initial_olivine_fabric"] = ["F", "AB", "", "olivine_A"][case["j"] % 4]
    elif fault == "lowercase_fabric":
        par["initial_olivine_fabric"] = "a"
    elif fault == "disl_coefficients_count":
        par["disl_coefficients"] = [[1.0, 2.0], PARAM_VALUES["disl_coefficients"] + [1.0]][case["j"] % 2]
    if case["params_present"] or par:
        lines.append("[parameters]")
        for k, v in par.items():
            lines.append(f"{k} = {_toml_value(v)}")
    # ---- output
    simulated = [p.name for p in exp_par["phase_assemblage"]]
    out = {}
    exp_out = {"paths": None, "log_level": "WARNING", "anisotropy": ["Voigt", "hexaxis", "moduli", "%decomp"]}
    if case["directory"] is not None:
        out["directory"] = case["directory"]
        exp_out["directory"] = pathlib.Path(tmp, case["directory"]).resolve()
    else:
        exp_out["directory"] = pathlib.Path.cwd().resolve()
    for key in ("raw_output", "diagnostics"):
        sel = case[key]
        if sel is None:
            exp_out[key] = [_core.MineralPhase[p] for p in simulated]
        else:
            lst = {"all": simulated, "first": simulated[:1], "empty": []}[sel]
            out[key] = lst
            exp_out[key] = [_core.MineralPhase[p] for p in lst]
    if case["anisotropy"] is not None:
        out["anisotropy"] = case["anisotropy"]
        exp_out["anisotropy"] = case["anisotropy"]
    if case["out_paths"] is not None:
        out["paths"] = case["out_paths"]
        exp_out["paths"] = None if mode == "paths" else case["out_paths"]
    if case["log_level"] is not None:
        out["log_level"] = case["log_level"]
        exp_out["log_level"] = case["log_level"]
    if fault == "output_phase_not_simulated":
        other = "enstatite" if "enstatite" not in simulated else ("olivine" if "olivine" not in simulated else None)
        if other is None:
            raise Skip("both phases simulated")
        out[["raw_output", "diagnostics"][case["j"] % 2]] = [other]
    elif fault == "output_phase_unknown":
        out[["raw_output", "diagnostics"][case["j"] % 2]] = ["quartz"]
    if case["output_present"] or out:
        lines.append("[output]")
        for k, v in out.items():
            lines.append(f"{k} = {_toml_value(v)}")
    exp = {"name": case["name"], "input": exp_in, "parameters": exp_par, "output": exp_out}
    return "\n".join(lines) + "\n", exp


def _norm(v):
    if isinstance(v, (list, tuple)):
        return tuple(_norm(x) for x in v)
    return v


def _vandalise(obj, depth=0):
    """Overwrite everything reachable in a returned configuration in place: whatever a later
    parse hands out must not be affected (no mutable defaults shared between parses)."""
    if depth > 4:
        return
    if isinstance(obj, dict):
        for k in list(obj):
            v = obj[k]
            if isinstance(v, (dict, list)):
                _vandalise(v, depth + 1)
            obj[k] = "vandalised"
        obj["extra_key"] = 1
    elif isinstance(obj, list):
        for v in obj:
            if isinstance(v, (dict, list)):
                _vandalise(v, depth + 1)
        obj.append("vandalised")


def check_config_sequence(case):
    """Several configurations parsed one after the other in one process, the returned
    dictionaries being overwritten in between: every parse satisfies the single-parse oracle."""
    n_non = 0
    for sub in case["cfgs"]:
        info = check_config(sub, vandalise=True)
        n_non += bool(info["nontrivial"])
    return {"nontrivial": len(case["cfgs"]) >= 2 and n_non >= 1, "labels": [f"parses{len(case['cfgs'])}"], "residual": 0.0}


def check_config(case, vandalise=False):
    tmp = tempfile.mkdtemp(prefix="c19_")
    cwd = os.getcwd()
    try:
        os.chdir(tmp)
        text, exp = build_toml(case, tmp)
        path = os.path.join(tmp, "cfg.toml")
        with open(path, "w") as f:
            f.write(text)
        cfg = sut(_io.parse_config, path)
        for sec in ("name", "input", "output", "parameters"):
            require(sec in cfg, f"parsed configuration has no '{sec}' entry (keys {list(cfg)})")
        # name
        if case["name"] is not None:
            require(cfg["name"] == case["name"], f"name parsed as {cfg['name']!r}")
        else:
            require(isinstance(cfg["name"], str) and len(cfg["name"]) > 0, f"default name {cfg['name']!r} is not a non-empty string")
        # parameters
        par = cfg["parameters"]
        require(set(par) == set(exp["parameters"]), f"parameter keys {sorted(set(par) ^ set(exp['parameters']))} missing/unexpected")
        for k, v in exp["parameters"].items():
            require(_norm(par[k]) == _norm(v), f"parameters.{k} = {par[k]!r}, expected {v!r} (documented default or given value)\n{text}")
        require(len(par["phase_assemblage"]) == len(par["phase_fractions"]), "phase lists of unequal length")
        require(abs(sum(par["phase_fractions"]) - 1.0) <= 1e-12, "phase fractions do not sum to one")
        require(all(isinstance(p, _core.MineralPhase) for p in par["phase_assemblage"]), f"phases not enumeration-typed: {par['phase_assemblage']!r}")
        require(isinstance(par["initial_olivine_fabric"], _core.MineralFabric), f"fabric not enumeration-typed: {par['initial_olivine_fabric']!r}")
        # input
        inp = cfg["input"]
        ei = exp["input"]
        for k in ("timestep", "strain_final"):
            a, b = inp[k], ei[k]
            require((a != a and b != b) or a == b, f"input.{k} = {a!r}, expected {b!r}")
        for k in ("mesh", "locations_final", "velocity_gradient", "locations_initial", "paths"):
            if ei[k] is None:
                require(inp.get(k) is None, f"input.{k} = {inp.get(k)!r}, expected None/absent")
            else:
                require(inp.get(k) is not None, f"input.{k} is None/absent although it was supplied")
        if ei["velocity_gradient"] is not None:
            u, L = inp["velocity_gradient"]
            require(np.allclose(L(np.nan, np.zeros(3)), pydrex.velocity.simple_shear_2d("Y", "X", 5e-6)[1](np.nan, np.zeros(3))), "velocity gradient callable differs")
        if ei["locations_final"] is not None:
            require(inp["locations_final"] == _io.read_scsv(LOC_FINAL), "final locations differ from the SCSV file")
        if ei["locations_initial"] is not None:
            require(inp["locations_initial"] == _io.read_scsv(LOC_INITIAL), "initial locations differ from the SCSV file")
        if ei["paths"] is not None:
            require(len(inp["paths"]) == 1 and "X_1" in inp["paths"][0], "path archives not loaded")
        # output
        out = cfg["output"]
        eo = exp["output"]
        require(pathlib.Path(out["directory"]).resolve() == eo["directory"], f"output.directory = {out['directory']!r}, expected {eo['directory']!r}")
        for k in ("raw_output", "diagnostics"):
            require(list(out[k]) == eo[k] and all(isinstance(p, _core.MineralPhase) for p in out[k]), f"output.{k} = {out[k]!r}, expected {eo[k]!r}")
        for k in ("anisotropy", "paths", "log_level"):
            require(out[k] == eo[k], f"output.{k} = {out[k]!r}, expected {eo[k]!r}")
        n_omitted = (
            (case["name"] is None) + (case["phases"] is None) + (case["fabric"] is None) + (len(PARAM_KEYS) - len(case["pkeys"]))
            + sum(case[k] is None for k in ("directory", "raw_output", "diagnostics", "anisotropy", "out_paths", "log_level", "strain_final"))
        )
        if vandalise:
            _vandalise(cfg)
        return {"nontrivial": n_omitted >= 1, "labels": [case["mode"], f"phases:{case['phases']}", "no_output" if not case["output_present"] else "output"], "residual": 0.0}
    finally:
        os.chdir(cwd)
        shutil.rmtree(tmp, ignore_errors=True)


def check_config_fault(case):
    tmp = tempfile.mkdtemp(prefix="c19_")
    cwd = os.getcwd()
    try:
        os.chdir(tmp)
        text, _ = build_toml(case, tmp)
        path = os.path.join(tmp, "cfg.toml")
        with open(path, "w") as f:
            f.write(text)
        try:
            _io.parse_config(path)
        except _err.ConfigError:
            return {"nontrivial": True, "labels": [case["fault"]], "residual": 0.0}
        except Exception as e:  # noqa: BLE001
            raise Violation(f"fault {case['fault']}: parse_config raised {type(e).__name__} instead of ConfigError: {str(e)[:150]}\n{text}")
        raise Violation(f"fault {case['fault']}: invalid configuration was accepted\n{text}")
    finally:
        os.chdir(cwd)
        shutil.rmtree(tmp, ignore_errors=True)


def classify_cfg(case):
    missing = []
    if case["fabric"] is None:
        missing.append("no_fabric")
    if case["raw_output"] is None or case["diagnostics"] is None:
        missing.append("no_output_phases")
    if case["phases"] and case["phases"].endswith("ord"):
        missing.append("ordinals")
    return "+".join(missing) or "full"


ORACLES = [
    Oracle(
        "record_roundtrip",
        st.fixed_dictionaries({"ov": st.fixed_dictionaries({}, optional=OVERRIDES)}),
        check_record,
        quick=100,
        thorough=500,
    ),
    Oracle("presets_exhaustive", st.just({}), check_presets, quick=1, thorough=1),
    Oracle("config_defaults", config_case(), check_config, classify=classify_cfg, quick=250, thorough=5000),
    Oracle(
        "config_sequence",
        st.fixed_dictionaries({"cfgs": st.lists(config_case(), min_size=2, max_size=4)}),
        check_config_sequence,
        quick=60,
        thorough=1000,
    ),
    Oracle("config_faults", fault_case(), check_config_fault, classify=lambda c: c["fault"], quick=200, thorough=3000),
]
