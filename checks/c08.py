"""C08 — multiphase: each phase evolves independently with its own volume factor."""

import os
import shutil
import numpy as np
from hypothesis import strategies as st

import pydrex
from pydrex import core as _core

from vlib import gen, hist
from vlib.harness import Oracle, Rejected, Skip, require, sut

RULE = (
    "Cases: an olivine mineral (fabric A-E) and an enstatite mineral with independently "
    "generated textures (2..24 grains), assemblage listed in either order with phase "
    "fractions (k/1000, 1-k/1000), parameters, starting F, velocity-gradient history and "
    "partition into 1..6 updates. Oracles: (a) multiphase evolution of each mineral equals "
    "its single-phase evolution with M* multiplied by its own phase fraction; (b) "
    "simultaneous permutation of phase and fraction lists, (c) order of minerals handed to "
    "update_all and bulk vs separate calls, (e) twin minerals: all byte-identical; (d) "
    "stateful interleaving: 2..4 minerals with their own update queues, executed in a "
    "generated interleaving vs each queue alone on fresh objects: byte-identical. "
    "Minerals reach the updates as built, restored from an NPZ checkpoint (before the first "
    "or after the first update) or with plain-integer phase/fabric/regime ordinals; the "
    "restored run must equal the in-memory run. "
    "Non-trivial: both phases present with phi in (0,1), M*>0, and for (d) at least one "
    "switch between minerals; distinct = distinct canonical JSON."
)
ASSUMPTIONS = [
    "oracle (a) compares at the solver-tolerance bound 5e-3+1e-3(N+2 strain) (products phi*M* are formed in a different order; one-ulp differences can flip LSODA step decisions, observed up to 7e-7) and additionally observes, through the public attribute pydrex.core.derivatives, that the solver receives exactly the listed fraction of the mineral's own phase; all other texture comparisons are byte-for-byte",
    "returned F is compared exactly between bulk and separate calls in the same order; across mineral orders it is integrated with a different mineral and only agrees within solver tolerance (C06)",
]


def multi_case():
    return st.fixed_dictionaries(
        {
            "ol": hist.mineral_spec(2, 24, regimes=(4, 6), fabrics=range(5)),
            "en": hist.mineral_spec(2, 24, regimes=(4, 6), fabrics=(5,)),
            "k": st.integers(1, 999),
            "order": st.sampled_from(["ol_en", "en_ol"]),
            "par": hist.param_spec(M=st.one_of(st.just(125.0), st.floats(1.0, 200.0))),
            "F0": hist.f0_spec(),
            "flow": hist.flow_spec(1.5),
            "cuts": hist.cuts_spec(6),
            # how the minerals reach the update: as built, restored from an NPZ checkpoint
            # (before the first or after the first update; enumeration fields come back as
            # numpy integers), or with plain-integer phase/fabric/regime ordinals
            "restore": st.sampled_from(["none", "none", "file", "file_mid", "int"]),
        }
    )


def _restore(m, how):
    if how == "int":
        m.phase, m.fabric, m.regime = int(m.phase), int(m.fabric), int(m.regime)
        return m
    import tempfile

    from pydrex import minerals as _minerals

    d = tempfile.mkdtemp(prefix="c08_")
    try:
        path = os.path.join(d, "checkpoint.npz")
        sut(m.save, path)
        return sut(_minerals.Mineral.from_file, path)
    finally:
        shutil.rmtree(d, ignore_errors=True)


def _assemblage(case, order=None):
    order = order or case["order"]
    phi_ol = case["k"] / 1000.0
    phi_en = 1.0 - phi_ol
    if order == "ol_en":
        return (0, 1), (phi_ol, phi_en)
    return (1, 0), (phi_en, phi_ol)


def _evolve(case, which, params, bulk_order=None, F_inputs=None):
    """Run the history for the minerals in `which` ('ol', 'en'); returns dict name->mineral, F.

    `F_inputs` (optional list): the deformation gradient handed to each update, instead
    of chaining the returned one (used to give two runs identical inputs at every step).
    """
    flow = hist.Flow(case["flow"])
    taus = hist.tau_points(flow.T, case["cuts"])
    ms = {w: hist.build_mineral(case[w]) for w in which}
    how = case.get("restore", "none")
    if how in ("file", "int"):
        ms = {w: _restore(m, how) for w, m in ms.items()}
    F = hist.f0(case["F0"])
    chain = []
    for k, (ta, tb) in enumerate(zip(taus[:-1], taus[1:])):
        if how == "file_mid" and k == 1:
            ms = {w: _restore(m, "file") for w, m in ms.items()}
        if F_inputs is not None:
            F = F_inputs[k]
        chain.append(F)
        pl = (flow.t_of(ta), flow.t_of(tb), flow.get_position)
        if bulk_order is not None:
            F = hist.update_bulk([ms[w] for w in bulk_order], params, F, flow, ta, tb)
        else:
            Fn = None
            for w in which:
                Fn = hist.update(ms[w], params, F, flow, ta, tb)
            F = Fn
    ms["_chain"] = chain
    return ms, F


def _identical(a, b):
    """Bit-identical; an integer-typed initial snapshot that went through an NPZ checkpoint comes
    back as float64 with the same values, which is compared by value."""
    a, b = np.asarray(a), np.asarray(b)
    if a.dtype == b.dtype:
        return a.shape == b.shape and a.tobytes() == b.tobytes()
    return np.array_equal(a, b)


def _same(m1, m2, what, tol=None):
    require(len(m1.orientations) == len(m2.orientations), f"{what}: different snapshot counts")
    worst = 0.0
    for k in range(len(m1.orientations)):
        if tol is None:
            require(
                _identical(m1.orientations[k], m2.orientations[k]) and _identical(m1.fractions[k], m2.fractions[k]),
                f"{what}: snapshot {k} is not byte-identical (max diff A {np.abs(m1.orientations[k] - m2.orientations[k]).max():.3e}, f {np.abs(m1.fractions[k] - m2.fractions[k]).max():.3e})",
            )
        else:
            e = max(
                float(np.abs(m1.orientations[k] - m2.orientations[k]).max()),
                float(np.abs(m1.fractions[k] - m2.fractions[k]).max()),
            )
            require(e <= tol, f"{what}: snapshot {k} differs by {e:.3e}", e)
            worst = max(worst, e)
    return worst


def check_own_factor(case):
    """(a): each mineral evolves as single-phase with M* x its own phase fraction."""
    phases, fracs = _assemblage(case)
    n = hist.mineral_n(case["ol"])
    params = hist.params_dict(case["par"], phases, fracs, n)
    seen = {0: set(), 1: set()}
    orig = _core.derivatives

    def spy(*a, **kw):
        seen[int(kw["phase"])].add(float(kw["volume_fraction"]))
        return orig(*a, **kw)

    _core.derivatives = spy  # public module attribute, looked up at call time by minerals.py
    try:
        multi, _ = _evolve(case, ("ol", "en"), params)
    finally:
        _core.derivatives = orig
    for ph in (0, 1):
        want = fracs[phases.index(ph)]
        if not seen[ph]:
            continue  # solver not reached through the module attribute (refactored call path): not observable
        require(
            seen[ph] == {want},
            f"solver received volume fraction(s) {sorted(seen[ph])} for phase {ph} whose listed fraction is {want} (assemblage {phases}, fractions {fracs})",
        )
    worst = 0.0
    flow = hist.Flow(case["flow"])
    n_upd = len(hist.tau_points(flow.T, case["cuts"])) - 1
    bound = 5e-3 + 1e-3 * (n_upd + 2 * flow.strain(0.0, flow.T, 201))
    for w, ph in (("ol", 0), ("en", 1)):
        phi = fracs[phases.index(ph)]
        ps = dict(case["par"], M=case["par"]["M"] * phi)
        single_params = hist.params_dict(ps, (ph,), (1.0,), n)
        single, _ = _evolve(case, (w,), single_params)
        worst = max(worst, _same(multi[w], single[w], f"{w}: multiphase vs single-phase with M*x{phi}", tol=bound))
    return {"nontrivial": True, "labels": [case["order"], gen.FABRICS[case["ol"]["pf"]][2], "restore:" + case.get("restore", "none")], "residual": worst / bound}


def check_permutations(case):
    """(b), (c), (e): list orders, bulk vs separate, twins: byte-identical."""
    n = hist.mineral_n(case["ol"])
    pA, fA = _assemblage(case, "ol_en")
    pB, fB = _assemblage(case, "en_ol")
    parA = hist.params_dict(case["par"], pA, fA, n)
    parB = hist.params_dict(case["par"], pB, fB, n)
    sepA, FA = _evolve(case, ("ol", "en"), parA)
    sepB, FB = _evolve(case, ("ol", "en"), parB)
    for w in ("ol", "en"):
        _same(sepA[w], sepB[w], f"{w}: permuting phase and fraction lists")
    bulk1, F1 = _evolve(case, ("ol", "en"), parA, bulk_order=("ol", "en"))
    # the returned F comes from the last mineral, so it depends on the order at solver
    # tolerance; give both orders identical F inputs at every step
    bulk2, F2 = _evolve(case, ("ol", "en"), parA, bulk_order=("en", "ol"), F_inputs=bulk1["_chain"])
    for w in ("ol", "en"):
        _same(bulk1[w], bulk2[w], f"{w}: order of minerals handed to update_all")
        _same(bulk1[w], sepA[w], f"{w}: update_all vs separate update_orientations")
    # F is integrated together with the last mineral handed over, so it may differ at solver
    # tolerance between orders (C06 bounds that); bulk and separate calls in the same order agree exactly.
    require(F1.tobytes() == FA.tobytes(), "update_all returns a different F than the last separate update_orientations call")
    eF = float(np.abs(F1 - F2).max() / np.abs(F1).max())
    require(eF <= 2e-2, f"returned F depends on the order of minerals beyond solver tolerance: {eF:.3e}", eF)
    twin, _ = _evolve(case, ("ol", "en"), parA)
    for w in ("ol", "en"):
        _same(twin[w], sepA[w], f"{w}: identically built and driven twins")
    # two identically built minerals handed to the same bulk update: both are updated at every
    # step (distinct objects, however equal they compare) and stay bit-identical twins
    trio, _ = _evolve(dict(case, ol2=case["ol"]), ("ol", "en", "ol2"), parA, bulk_order=("ol", "en", "ol2"), F_inputs=bulk1["_chain"])
    _same(trio["ol2"], trio["ol"], "ol: identically built twin handed to the same update_all call")
    for w in ("ol", "en"):
        _same(trio[w], bulk1[w], f"{w}: update_all with an additional twin mineral in the list")
    if case.get("restore", "none") != "none":
        plain, _ = _evolve(dict(case, restore="none"), ("ol", "en"), parA)
        for w in ("ol", "en"):
            _same(plain[w], sepA[w], f"{w}: minerals restored ({case['restore']}) vs built in memory")
    return {"nontrivial": True, "labels": [gen.FABRICS[case["ol"]["pf"]][2], "restore:" + case.get("restore", "none")], "residual": 0.0}


def interleave_case():
    one = st.fixed_dictionaries(
        {
            "min": hist.mineral_spec(2, 16, regimes=(4, 6)),
            "par": hist.param_spec(),
            "flow": hist.flow_spec(1.0),
            "cuts": hist.cuts_spec(4),
        }
    )
    return st.fixed_dictionaries(
        {
            "items": st.lists(one, min_size=2, max_size=4),
            "k": st.integers(1, 999),
            "sched": st.lists(st.integers(0, 3), min_size=4, max_size=24),
        }
    )


def check_interleaving(case):
    """(d): minerals share no hidden state: any interleaving == isolated runs."""
    items = case["items"]
    phi_ol = case["k"] / 1000.0

    def setup():
        out = []
        for it in items:
            m = hist.build_mineral(it["min"])
            flow = hist.Flow(it["flow"])
            taus = hist.tau_points(flow.T, it["cuts"])
            params = hist.params_dict(it["par"], (0, 1), (phi_ol, 1.0 - phi_ol), hist.mineral_n(it["min"]))
            out.append({"m": m, "flow": flow, "taus": taus, "params": params, "F": np.eye(3), "i": 0})
        return out

    def step(s):
        ta, tb = s["taus"][s["i"]], s["taus"][s["i"] + 1]
        s["F"] = hist.update(s["m"], s["params"], s["F"], s["flow"], ta, tb)
        s["i"] += 1

    iso = setup()
    for s in iso:
        while s["i"] < len(s["taus"]) - 1:
            step(s)
    mixed = setup()
    order = []
    sched = list(case["sched"])
    pos = 0
    while any(s["i"] < len(s["taus"]) - 1 for s in mixed):
        pick = sched[pos % len(sched)] % len(mixed)
        pos += 1
        # next mineral with work left, starting from the picked one
        for d in range(len(mixed)):
            s = mixed[(pick + d) % len(mixed)]
            if s["i"] < len(s["taus"]) - 1:
                step(s)
                order.append((pick + d) % len(mixed))
                break
    switches = sum(1 for a, b in zip(order[:-1], order[1:]) if a != b)
    for k, (a, b) in enumerate(zip(iso, mixed)):
        _same(a["m"], b["m"], f"mineral {k}: interleaved vs isolated updates")
        require(a["F"].tobytes() == b["F"].tobytes(), f"mineral {k}: F differs between interleaved and isolated runs")
    return {"nontrivial": switches >= 1, "labels": [f"minerals{len(items)}", f"switches{min(switches, 8)}"], "residual": 0.0}


SHARDS = {"quick": 8, "thorough": 16}
ORACLES = [
    Oracle("own_phase_factor", multi_case(), check_own_factor, quick=80, thorough=800, shrink_seconds=180),
    Oracle("order_independence", multi_case(), check_permutations, quick=48, thorough=500, shrink_seconds=180),
    Oracle("interleaving", interleave_case(), check_interleaving, quick=48, thorough=500, shrink_seconds=180),
]
