"""C07 — null forcing leaves the texture unchanged; unsupported regimes are rejected."""

import itertools

import numpy as np
from hypothesis import strategies as st

import pydrex
from pydrex import core as _core
from pydrex import minerals as _minerals

from vlib import drexcase, gen, hist
from vlib.harness import Oracle, Rejected, Skip, Violation, require, sut

RULE = (
    "History cases: mineral (any phase/fabric, 2..30 grains, any texture/volumes), "
    "parameters, starting F, partition into 1..8 updates, with null forcing of three "
    "kinds: (i) L == 0 in any regime accepted for texture evolution, (ii) the two "
    "viscosity-bound regimes under an arbitrary L history (also entered through a "
    "get_regime callback), (iii) M*=0 under an arbitrary L history in the dislocation "
    "regimes (sliding threshold 0 or below every initial fraction). Rejection cases: all "
    "regime ordinals -2..10 x phase ordinals -2..3 x fabric ordinals -7..7 at solver level "
    "(enumerated exhaustively per generated texture), and Mineral-level updates with an "
    "unsupported regime (constructor, callback mid-interval) or a velocity-gradient "
    "callable that raises mid-interval, after 0..3 successful updates. Non-trivial: "
    "non-uniform texture (>=2 distinct orientations), |L|>0 for kinds (ii)/(iii), >=2 "
    "updates; for rejections: a failing update after >=1 successful update; distinct = "
    "distinct canonical JSON."
)
ASSUMPTIONS = [
    "invalid phase/fabric ordinals are only required to raise where the solver looks them up (dislocation-type regimes); regimes that ignore phase and fabric (viscosity bounds, matrix diffusion) are required to return finite arrays",
    "sliding floor (C09) legitimately changes volumes below chi/n, so null-forcing cases use chi=0 or chi/n below every initial fraction",
]


def null_case():
    return st.fixed_dictionaries(
        {
            "kind": st.sampled_from(["zeroL", "viscosity", "viscosity_cb", "M0"]),
            "min": hist.mineral_spec(2, 30, regimes=(4, 6)),
            "vreg": st.sampled_from([0, 7]),
            "par": hist.param_spec(),
            "F0": hist.f0_spec(),
            "flow": hist.flow_spec(2.0),
            "cuts": hist.cuts_spec(8),
            "bulk": st.booleans(),
        }
    )


def classify_null(case):
    return case["kind"]


def check_null(case):
    kind = case["kind"]
    ms = dict(case["min"])
    if kind == "viscosity":
        ms["regime"] = case["vreg"]
    mineral = hist.build_mineral(ms)
    n = hist.mineral_n(ms)
    phase = gen.FABRICS[ms["pf"]][0]
    ps = dict(case["par"])
    f_init = mineral.fractions[0]
    if ps["chi"] > 0 and f_init.min() < ps["chi"] / n * (1 + 1e-6):
        ps["chi"] = 0.0
    if kind == "M0":
        ps["M"] = 0.0
    params = hist.params_dict(ps, (phase,), (1.0,), n)
    fs = dict(case["flow"])
    flow = hist.Flow(fs)
    if kind == "zeroL":
        flow.L0 = np.zeros((3, 3))
        flow.L1 = np.zeros((3, 3))
        flow.L2 = np.zeros((3, 3))
        flow.time_dependent = flow.position_dependent = False
    get_regime = None
    if kind == "viscosity_cb":
        get_regime = lambda t, x: _core.DeformationRegime(case["vreg"])  # noqa: E731
    F0 = hist.f0(case["F0"])
    F = F0.copy()
    Fref = F0.copy()
    taus = hist.tau_points(flow.T, case["cuts"])
    strain = 0.0
    worst = 0.0
    for k, (ta, tb) in enumerate(zip(taus[:-1], taus[1:])):
        strain += flow.strain(ta, tb, 101)
        A_prev = mineral.orientations[-1].copy()
        f_prev = mineral.fractions[-1].copy()
        if case["bulk"]:
            F = hist.update_bulk([mineral], params, F, flow, ta, tb, get_regime=get_regime)
        else:
            F = hist.update(mineral, params, F, flow, ta, tb, get_regime=get_regime)
        require(len(mineral.orientations) == k + 2 and len(mineral.fractions) == k + 2, "update did not append one snapshot")
        dA = float(np.abs(mineral.orientations[-1] - A_prev).max())
        df = float(np.abs(mineral.fractions[-1] - f_prev).max())
        if kind != "M0":
            require(dA <= 1e-12, f"orientations changed by {dA:.3e} under null forcing ({kind}, update {k + 1})", dA)
            require(df <= 1e-12, f"volume fractions changed by {df:.3e} under null forcing ({kind}, update {k + 1})", df)
            worst = max(worst, dA, df)
        else:
            require(df <= 1e-9, f"volume fractions changed by {df:.3e} although boundary mobility is zero (update {k + 1})", df)
            worst = max(worst, df)
        # F still follows dF/dt = L.F
        Fref = flow.reference_F(Fref, ta, tb, rtol=1e-10, atol=1e-12)
        bound = 5e-3 + 1e-3 * (k + 1 + 2 * strain)
        eF = float(np.linalg.norm(F - Fref) / np.linalg.norm(Fref))
        require(eF <= bound, f"deformation gradient does not follow dF/dt=L.F under null forcing ({kind}): {eF:.3e}", eF)
        if kind == "zeroL":
            require(float(np.abs(F - F0).max()) <= 1e-12 * np.abs(F0).max(), "F changed although the velocity gradient is zero")
    A0 = mineral.orientations[0]
    nonuniform = bool(np.abs(A0 - A0[0]).max() > 1e-9)
    return {
        "nontrivial": bool(nonuniform and len(taus) > 2 and (kind == "zeroL" or strain > 0.05)),
        "labels": [kind, f"regime{ms['regime']}", "bulk" if case["bulk"] else "single", gen.FABRICS[ms["pf"]][2]],
        "residual": worst,
    }


# rate level ------------------------------------------------------------------------

VALID_PAIRS = {(0, 0), (0, 1), (0, 2), (0, 3), (0, 4), (1, 5)}
NUMERIC_REGIMES = {0, 1, 4, 6, 7}
LOOKUP_REGIMES = {4, 6}


def check_ordinals(case):
    """Exhaustive ordinal grid for one generated texture / velocity gradient."""
    x = drexcase.expand(case)
    if x is None:
        raise Skip("zero strain rate")
    n = len(x["A"])
    checked = 0
    for regime, phase, fabric in itertools.product(range(-2, 11), range(-2, 4), range(-7, 8)):
        kwargs = dict(
            regime=regime,
            phase=phase,
            fabric=fabric,
            n_grains=n,
            orientations=x["A"],
            fractions=x["f"],
            strain_rate=x["D"],
            velocity_gradient=x["L"],
            deformation_gradient_spin=np.zeros((3, 3)),
            stress_exponent=x["p"],
            deformation_exponent=x["n"],
            nucleation_efficiency=x["lam"],
            gbm_mobility=x["M"],
            volume_fraction=x["phi"],
        )
        must_raise = regime not in NUMERIC_REGIMES or (regime in LOOKUP_REGIMES and (phase, fabric) not in VALID_PAIRS)
        must_return = regime in NUMERIC_REGIMES and ((phase, fabric) in VALID_PAIRS)
        try:
            out = _core.derivatives(**kwargs)
            raised = None
        except Exception as e:  # noqa: BLE001
            out = None
            raised = e
        if must_raise:
            require(raised is not None, f"regime={regime} phase={phase} fabric={fabric}: returned numbers instead of raising")
        elif must_return:
            require(raised is None, f"regime={regime} phase={phase} fabric={fabric}: raised {type(raised).__name__}: {raised}")
        if out is not None:
            Adot, fdot = out
            require(
                np.all(np.isfinite(Adot)) and np.all(np.isfinite(fdot)) and Adot.shape == (n, 3, 3) and fdot.shape == (n,),
                f"regime={regime} phase={phase} fabric={fabric}: non-finite or misshaped output",
            )
            if regime in (0, 7):
                require(np.all(Adot == 0.0) and np.all(fdot == 0.0), f"viscosity-bound regime {regime} returns non-zero rates")
            if regime == 1:
                require(np.all(fdot == 0.0), "matrix_diffusion returns non-zero volume rates")
        checked += 1
    return {"nontrivial": n >= 2, "labels": [f"grid{checked}"], "residual": 0.0}


# failed updates --------------------------------------------------------------------


class _Boom(Exception):
    pass


def reject_case():
    return st.fixed_dictionaries(
        {
            "how": st.sampled_from(["ctor_regime", "callback_regime", "velgrad_raises", "bad_fabric", "bad_phase", "bad_phase_unlisted"]),
            "bad_phase": st.sampled_from([2, 3, 7, -1, 100]),
            "bad_fabric": st.sampled_from(["mismatch", "mismatch", -1, -2, -6, -7, 6, 7, 100]),
            "bad_regime": st.sampled_from([2, 3, 5, -1, 8, 99]),
            "min": hist.mineral_spec(2, 20, regimes=(4, 6)),
            "par": hist.param_spec(),
            "F0": hist.f0_spec(),
            "flow": hist.flow_spec(1.5),
            "good": st.integers(0, 3),
            "frac": st.floats(0.05, 0.95),
            "bulk": st.booleans(),
        }
    )


def check_rejection(case):
    ms = case["min"]
    mineral = hist.build_mineral(ms)
    n = hist.mineral_n(ms)
    phase = gen.FABRICS[ms["pf"]][0]
    params = hist.params_dict(case["par"], (phase,), (1.0,), n)
    flow = hist.Flow(case["flow"])
    F = hist.f0(case["F0"])
    good = case["good"]
    pts = np.linspace(0.0, flow.T, good + 2)
    for ta, tb in zip(pts[:good], pts[1 : good + 1]):
        F = hist.update(mineral, params, F, flow, ta, tb)
    before = hist.snapshot_bytes(mineral)
    nb = (len(mineral.orientations), len(mineral.fractions))
    ta, tb = pts[good], pts[good + 1]
    how = case["how"]
    get_regime = None
    get_L = flow.get_velocity_gradient
    t_mid = flow.t_of(ta + case["frac"] * (tb - ta))
    bad = case["bad_regime"]
    if how == "ctor_regime":
        mineral.regime = bad
    elif how == "callback_regime":
        r0 = ms["regime"]
        get_regime = lambda t, x: (bad if t >= t_mid else _core.DeformationRegime(r0))  # noqa: E731
    elif how == "velgrad_raises":

        def get_L(t, x):
            if t >= t_mid:
                raise _Boom("velocity gradient unavailable")
            return flow.get_velocity_gradient(t, x)

    elif how == "bad_fabric":
        # a valid fabric of the other phase, or an ordinal outside the enumeration (negative
        # ordinals would wrap around as array indices)
        bf = case.get("bad_fabric", "mismatch")
        mineral.fabric = (5 if phase == 0 else 0) if bf == "mismatch" else bf
    elif how == "bad_phase":
        mineral.phase = 3
        params = dict(params, phase_assemblage=(3,), phase_fractions=(1.0,))
    elif how == "bad_phase_unlisted":
        # invalid phase ordinal that the (valid) assemblage does not list
        mineral.phase = case.get("bad_phase", 3)
    raised = None
    try:
        if case["bulk"]:
            pydrex.update_all([mineral], params, F, get_L, (flow.t_of(ta), flow.t_of(tb), flow.get_position), get_regime=get_regime)
        else:
            mineral.update_orientations(params, F, get_L, (flow.t_of(ta), flow.t_of(tb), flow.get_position), get_regime=get_regime)
    except Exception as e:  # noqa: BLE001
        raised = e
    require(raised is not None, f"update with {how} (regime {bad}) returned instead of raising")
    after = hist.snapshot_bytes(mineral)
    require(
        (len(mineral.orientations), len(mineral.fractions)) == nb,
        f"failed update ({how}) changed the number of stored snapshots from {nb} to {(len(mineral.orientations), len(mineral.fractions))}",
    )
    require(after == before, f"failed update ({how}) altered stored snapshots")
    return {"nontrivial": good >= 1, "labels": [how, type(raised).__name__, f"good{good}"], "residual": 0.0}


SHARDS = {"quick": 8, "thorough": 16}
ORACLES = [
    Oracle("null_forcing", null_case(), check_null, classify=classify_null, quick=160, thorough=1200, shrink_seconds=180),
    Oracle("ordinal_grid", drexcase.rate_case(6, 4), check_ordinals, quick=24, thorough=60),
    Oracle("failed_update", reject_case(), check_rejection, classify=lambda c: c["how"], quick=120, thorough=1200, shrink_seconds=120),
]
