"""C10 — Voigt average is the volume-weighted mean of rotated single-crystal stiffnesses."""

import numpy as np
from hypothesis import strategies as st

import pydrex
from pydrex import core as _core
from pydrex import minerals as _minerals

from checks.c11 import VOIGT, ref_tensor
from vlib import gen
from vlib.harness import Oracle, Skip, Violation, require, sut

RULE = (
    "Cases: 1..3 snapshots x 1..24 grains (texture families as C02, volumes on the "
    "simplex incl. zeros/dominant) for an olivine and/or enstatite mineral; assemblage "
    "[ol], [en], [ol,en], [en,ol] with the minerals handed over in either order; phase "
    "fractions k/1000; default or custom positive-definite orthorhombic/triclinic "
    "stiffness matrices in units from 1e-12 to 1e12 of the GPa values; the minerals and the "
    "stiffness record must come back unmodified; a frame rotation Q. Malformed cases: unequal grain counts, "
    "unequal snapshot counts between minerals or between orientations and fractions. "
    "Non-trivial: >=2 grains with a non-aligned texture, or an assemblage/mineral order "
    "other than (olivine, enstatite); distinct = distinct canonical JSON."
)
ASSUMPTIONS = [
    "reference: einsum('ia,jb,kc,ld,abcd') with R = A^T and an independently written Voigt index map",
    "tolerance 1e-9 relative to the largest stiffness entry (measured agreement 1e-13)",
]


def ref_voigt(t):
    m = np.zeros((6, 6))
    for (p, q), i in VOIGT.items():
        for (r, s), j in VOIGT.items():
            m[i, j] = t[p, q, r, s]
    return m


def stiffness_spec():
    return st.one_of(
        st.just({"k": "default"}),
        st.fixed_dictionaries(
            {
                "k": st.just("custom"),
                "ol": st.lists(st.floats(0.0, 1.0), min_size=21, max_size=21),
                "en": st.lists(st.floats(0.0, 1.0), min_size=21, max_size=21),
                "tric": st.booleans(),
                "unit": st.sampled_from([1.0, 1.0, 1e9, 1e-2, 1e3, 1e-12, 1e12, "whole"]),  # GPa, Pa, Mbar, MPa, far-out, whole GPa as integers
            }
        ),
    )


def _make_stiffness(u, tric):
    """Positive-definite symmetric 6x6 from 21 numbers in [0,1] (diagonally dominant)."""
    m = np.zeros((6, 6))
    iu = np.triu_indices(6, 1)
    off = (np.asarray(u[6:]) - 0.3) * 60.0
    if not tric:
        keep = np.zeros(15, dtype=bool)
        # orthorhombic: only C12, C13, C23 off-diagonal
        for idx, (i, j) in enumerate(zip(*iu)):
            keep[idx] = i < 3 and j < 3
        off = np.where(keep, np.abs(off) + 20.0, 0.0)
    m[iu] = off
    m = m + m.T
    diag = 150.0 + 200.0 * np.asarray(u[:3])
    shear = 40.0 + 60.0 * np.asarray(u[3:6])
    d = np.concatenate([diag, shear])
    m[np.diag_indices(6)] = d + (np.abs(m).sum(axis=1) if tric else 0.0)
    return m


def _unit(m, spec):
    u = spec.get("unit", 1.0)
    return np.round(m).astype(np.int64) if u == "whole" else m * u


def tensors(spec):
    if spec["k"] == "default":
        return _minerals.StiffnessTensors()
    return _minerals.StiffnessTensors(olivine=_unit(_make_stiffness(spec["ol"], spec["tric"]), spec), enstatite=_unit(_make_stiffness(spec["en"], spec["tric"]), spec))


def voigt_case():
    return st.fixed_dictionaries(
        {
            "n": st.integers(1, 24),
            "steps": st.integers(1, 3),
            "tex": st.lists(gen.texture_spec(24, 24, 8, families=["random", "clustered", "girdle", "single"]), min_size=6, max_size=6),
            "explicit": st.lists(gen.rotation_spec(), min_size=0, max_size=6),
            "vol": st.lists(gen.volume_spec(), min_size=6, max_size=6),
            "assemblage": st.sampled_from(["ol", "en", "ol_en", "en_ol"]),
            "mineral_order": st.sampled_from(["as_listed", "reversed"]),
            "k": st.integers(1, 999),
            "stiff": stiffness_spec(),
            "Q": st.one_of(gen.generic_rotation_spec(), gen.rotation_spec()),
        }
    )


def _build(case):
    n, steps = case["n"], case["steps"]
    present = {"ol": ["ol"], "en": ["en"], "ol_en": ["ol", "en"], "en_ol": ["en", "ol"]}[case["assemblage"]]
    phase_of = {"ol": 0, "en": 1}
    minerals = {}
    k = 0
    for w in ("ol", "en"):
        if w not in present:
            continue
        As, fs = [], []
        for s in range(steps):
            A = gen.orientations(case["tex"][k % 6])[:n].copy()
            for i, r in enumerate(case["explicit"]):
                if i < n and s == 0:
                    A[i] = gen.rot(r)
            if (k + case["k"]) % 3 == 1:
                A = np.asfortranarray(A)  # same values, other memory layout
            As.append(A)
            fs.append(gen.volumes(case["vol"][k % 6], n))
            k += 1
        ph = phase_of[w]
        m = sut(
            _minerals.Mineral,
            phase=_core.MineralPhase(ph),
            fabric=_core.MineralFabric(0 if ph == 0 else 5),
            regime=_core.DeformationRegime(4),
            n_grains=n,
            fractions_init=fs[0],
            orientations_init=As[0],
        )
        m.orientations = list(As)
        m.fractions = list(fs)
        minerals[w] = m
    phases = [phase_of[w] for w in present]
    if len(present) == 2:
        phi = [case["k"] / 1000.0, 1.0 - case["k"] / 1000.0]
    else:
        phi = [1.0]
    mlist = [minerals[w] for w in present]
    if case["mineral_order"] == "reversed":
        mlist = mlist[::-1]
    return minerals, mlist, present, phases, phi


def _reference(minerals, present, phi, C, step, Q=None):
    out = np.zeros((3, 3, 3, 3))
    for w, ph in zip(present, phi):
        m = minerals[w]
        t = ref_tensor(C["ol" if w == "ol" else "en"])
        for A, f in zip(m.orientations[step], m.fractions[step]):
            R = A.T if Q is None else (A @ Q.T).T
            out += ph * f * np.einsum("ia,jb,kc,ld,abcd->ijkl", R, R, R, R, t)
    return ref_voigt(out)


def _moduli(m):
    K = m[:3, :3].sum() / 9.0
    G = (m[0, 0] + m[1, 1] + m[2, 2] - m[0, 1] - m[0, 2] - m[1, 2] + 3 * (m[3, 3] + m[4, 4] + m[5, 5])) / 15.0
    return K, G


def check_voigt(case):
    minerals, mlist, present, phases, phi = _build(case)
    st_obj = tensors(case["stiff"])
    C = {"ol": np.asarray(st_obj.olivine), "en": np.asarray(st_obj.enstatite)}
    scale = max(np.abs(C["ol"]).max(), np.abs(C["en"]).max())
    assemblage = [_core.MineralPhase(p) for p in phases]
    args = (mlist, assemblage, list(phi))
    before = [([a.tobytes() for a in m.orientations], [f.tobytes() for f in m.fractions]) for m in mlist]
    out = sut(pydrex.voigt_averages, *args) if case["stiff"]["k"] == "default" else sut(pydrex.voigt_averages, *args, st_obj)
    after = [([a.tobytes() for a in m.orientations], [f.tobytes() for f in m.fractions]) for m in mlist]
    require(before == after, "voigt_averages modified the textures of the minerals it was given")
    require(np.array_equal(np.asarray(st_obj.olivine), C["ol"]) and np.array_equal(np.asarray(st_obj.enstatite), C["en"]), "voigt_averages modified the stiffness tensors it was given")
    steps = case["steps"]
    require(out.shape == (steps, 6, 6), f"result shape {out.shape}, expected {(steps, 6, 6)}")
    worst = 0.0
    Q = gen.rot(case["Q"])
    for s in range(steps):
        ref = _reference(minerals, present, phi, C, s)
        e = float(np.abs(out[s] - ref).max()) / scale
        require(np.all(np.isfinite(out[s])) and e <= 1e-9, f"Voigt average differs from the volume-weighted sum of rotated single-crystal tensors by {e:.3e} (relative; assemblage {present}, minerals {case['mineral_order']})", e)
        worst = max(worst, e)
        es = float(np.abs(out[s] - out[s].T).max()) / scale
        require(es <= 1e-12, f"Voigt average not symmetric ({es:.3e})", es)
        # texture-independent invariants
        K, G = _moduli(out[s])
        Kr = sum(p * _moduli(C["ol" if w == "ol" else "en"])[0] for w, p in zip(present, phi))
        Gr = sum(p * _moduli(C["ol" if w == "ol" else "en"])[1] for w, p in zip(present, phi))
        require(abs(K - Kr) <= 1e-9 * scale and abs(G - Gr) <= 1e-9 * scale, f"bulk/shear moduli ({K:.6f},{G:.6f}) differ from the phase-weighted single-crystal Voigt moduli ({Kr:.6f},{Gr:.6f})")
    # co-rotation with the frame
    rotated = []
    for w in present:
        m = minerals[w]
        m2 = sut(
            _minerals.Mineral,
            phase=m.phase,
            fabric=m.fabric,
            regime=m.regime,
            n_grains=m.n_grains,
            fractions_init=m.fractions[0],
            orientations_init=m.orientations[0] @ Q.T,
        )
        m2.orientations = [A @ Q.T for A in m.orientations]
        m2.fractions = list(m.fractions)
        rotated.append(m2)
    if case["mineral_order"] == "reversed":
        rotated = rotated[::-1]
    out_r = sut(pydrex.voigt_averages, rotated, assemblage, list(phi), st_obj)
    for s in range(steps):
        t = ref_tensor(out[s])
        expect = ref_voigt(np.einsum("ia,jb,kc,ld,abcd->ijkl", Q, Q, Q, Q, t))
        e = float(np.abs(out_r[s] - expect).max()) / scale
        require(e <= 1e-9, f"Voigt average does not co-rotate with the reference frame ({e:.3e})", e)
        worst = max(worst, e)
    # list-order independence
    if len(present) == 2:
        out2 = sut(pydrex.voigt_averages, mlist[::-1], assemblage, list(phi), st_obj)
        e = float(np.abs(out2 - out).max()) / scale
        require(e <= 1e-10, f"result depends on the order of the minerals ({e:.3e})", e)
        out3 = sut(pydrex.voigt_averages, mlist, assemblage[::-1], list(phi)[::-1], st_obj)
        e = float(np.abs(out3 - out).max()) / scale
        require(e <= 1e-10, f"result depends on the order of the phase list ({e:.3e})", e)
    A0 = mlist[0].orientations[0]
    aligned = all(gen.angle_from_axis24(a) < 1e-6 for a in A0[:6])
    return {
        "nontrivial": bool((case["n"] >= 2 and not aligned) or case["assemblage"] != "ol_en" or case["mineral_order"] == "reversed"),
        "labels": [case["assemblage"], case["mineral_order"], case["stiff"]["k"], f"steps{steps}"],
        "residual": worst,
    }


def check_single_aligned(case):
    """One aligned grain returns the single-crystal tensor (any phase, any stiffness)."""
    st_obj = tensors(case["stiff"])
    ph = case["phase"]
    C = np.asarray(st_obj.olivine if ph == 0 else st_obj.enstatite)
    m = sut(
        _minerals.Mineral,
        phase=_core.MineralPhase(ph),
        fabric=_core.MineralFabric(0 if ph == 0 else 5),
        regime=_core.DeformationRegime(4),
        n_grains=1,
        fractions_init=np.array([1.0]),
        orientations_init=np.eye(3)[None],
    )
    out = sut(pydrex.voigt_averages, [m], [_core.MineralPhase(ph)], [1.0], st_obj)
    e = float(np.abs(out[0] - C).max()) / np.abs(C).max()
    require(e <= 1e-12, f"one aligned grain of phase {ph} does not return its single-crystal tensor ({e:.3e})", e)
    return {"nontrivial": ph == 1 or case["stiff"]["k"] == "custom", "labels": [f"phase{ph}", case["stiff"]["k"]], "residual": e}


def check_malformed(case):
    n = case["n"]
    rng = np.random.default_rng(case["seed"])

    def mk(ph, ng, steps_o, steps_f):
        A = gen._random_rotations(rng, ng)
        m = _minerals.Mineral(
            phase=_core.MineralPhase(ph), fabric=_core.MineralFabric(0 if ph == 0 else 5), regime=_core.DeformationRegime(4),
            n_grains=ng, fractions_init=np.full(ng, 1 / ng), orientations_init=A,
        )
        m.orientations = [A] * steps_o
        m.fractions = [np.full(ng, 1 / ng)] * steps_f
        return m

    kind = case["kind"]
    if kind == "grains":
        ms = [mk(0, n, 2, 2), mk(1, n + case["d"], 2, 2)]
    elif kind == "steps":
        ms = [mk(0, n, 2, 2), mk(1, n, 2 + case["d"], 2 + case["d"])]
    else:
        ms = [mk(0, n, 2, 2), mk(1, n, 2, 2 + case["d"])]
    if case["rev"]:
        ms = ms[::-1]
    try:
        pydrex.voigt_averages(ms, [_core.MineralPhase(0), _core.MineralPhase(1)], [0.6, 0.4])
    except ValueError:
        return {"nontrivial": True, "labels": [kind], "residual": 0.0}
    except Exception as e:  # noqa: BLE001
        raise Violation(f"mismatched {kind}: raised {type(e).__name__} instead of ValueError: {e}")
    raise Violation(f"minerals with mismatched {kind} were accepted")


def check_stiffness_mutation(case):
    """Documented way to use custom stiffnesses: modify the attributes of a StiffnessTensors
    instance. The same instance is used for several averages with its attributes reassigned
    in between; every result must reflect the current attribute values."""
    minerals, mlist, present, phases, phi = _build(case["base"])
    assemblage = [_core.MineralPhase(p) for p in phases]
    st_obj = _minerals.StiffnessTensors()
    worst = 0.0
    for k, spec in enumerate([{"k": "default"}] + case["muts"]):
        if spec["k"] == "custom":
            st_obj.olivine = _unit(_make_stiffness(spec["ol"], spec["tric"]), spec)
            st_obj.enstatite = _unit(_make_stiffness(spec["en"], spec["tric"]), spec)
        C = {"ol": np.asarray(st_obj.olivine), "en": np.asarray(st_obj.enstatite)}
        scale = max(np.abs(C["ol"]).max(), np.abs(C["en"]).max())
        out = sut(pydrex.voigt_averages, mlist, assemblage, list(phi), st_obj)
        for s_ in range(case["base"]["steps"]):
            ref = _reference(minerals, present, phi, C, s_)
            e = float(np.abs(out[s_] - ref).max()) / scale
            require(e <= 1e-9, f"average number {k + 1} with the same StiffnessTensors instance does not reflect its current attributes (relative deviation {e:.3e})", e)
            worst = max(worst, e)
    # the default argument (a module-level instance) must not have been affected
    out_def = sut(pydrex.voigt_averages, mlist, assemblage, list(phi))
    Cd = {"ol": np.asarray(_minerals.StiffnessTensors().olivine), "en": np.asarray(_minerals.StiffnessTensors().enstatite)}
    e = float(np.abs(out_def[0] - _reference(minerals, present, phi, Cd, 0)).max()) / np.abs(Cd["ol"]).max()
    require(e <= 1e-9, f"default stiffness tensors changed after custom ones were used (relative deviation {e:.3e})", e)
    return {"nontrivial": len(case["muts"]) >= 1, "labels": [f"mutations{len(case['muts'])}"], "residual": max(worst, e)}


ORACLES = [
    Oracle(
        "stiffness_mutation_sequence",
        st.fixed_dictionaries(
            {
                "base": voigt_case(),
                "muts": st.lists(
                    st.fixed_dictionaries(
                        {
                            "k": st.just("custom"),
                            "ol": st.lists(st.floats(0.0, 1.0), min_size=21, max_size=21),
                            "en": st.lists(st.floats(0.0, 1.0), min_size=21, max_size=21),
                            "tric": st.booleans(),
                        }
                    ),
                    min_size=1,
                    max_size=3,
                ),
            }
        ),
        check_stiffness_mutation,
        quick=60,
        thorough=600,
    ),
    Oracle("weighted_sum", voigt_case(), check_voigt, classify=lambda c: c["assemblage"], quick=250, thorough=5000),
    Oracle(
        "single_aligned_grain",
        st.fixed_dictionaries({"phase": st.integers(0, 1), "stiff": stiffness_spec()}),
        check_single_aligned,
        classify=lambda c: f"phase{c['phase']}",
        quick=40,
        thorough=200,
    ),
    Oracle(
        "malformed_rejected",
        st.fixed_dictionaries(
            {
                "kind": st.sampled_from(["grains", "steps", "fractions"]),
                "n": st.integers(1, 8),
                "d": st.integers(1, 3),
                "rev": st.booleans(),
                "seed": gen.small_seed,
            }
        ),
        check_malformed,
        classify=lambda c: c["kind"],
        quick=60,
        thorough=200,
    ),
]
