"""C20 — coordinate conversions and pole-figure primitives are geometrically correct."""

import math

import numpy as np
from hypothesis import strategies as st

from pydrex import geometry as G
from pydrex import stats as S

from vlib import gen
from vlib.harness import Oracle, Skip, Violation, require, sut

RULE = (
    "Conversion cases: points of R^3 minus the origin with direction from a generated unit "
    "vector (generic, on a coordinate axis, in a coordinate plane, within 1e-3..1e-12 of "
    "the z axis) and magnitude 10^[-150,150], scalar and array inputs. Pole cases: 1..60 "
    "orientations (texture families), crystal direction from integer triples in [-3,3]^3 "
    "minus 0 or real triples, the six reference-axes strings in either letter case. "
    "Projection cases: unit vectors incl. +-z and within 1e-17..1e-3 of them, and points of "
    "the unit disk for the inverse lifting. Density cases: 1..300 unit vectors (random, "
    "clustered, single, antipodal pairs), scalar weight in [0.1,10], grid 5..41 steps, the "
    "five kernels, sigma in [3,20], axial on/off. Non-trivial: point off every coordinate "
    "axis (conversion); >=2 distinct orientations and a non-axis crystal direction (poles); "
    "vector at least 1e-6 away from the poles of the sphere (projection); >=10 data points "
    "(density); distinct = distinct canonical JSON."
)
ASSUMPTIONS = [
    "longitude is compared modulo 2 pi (documented range [0,2pi) vs atan2's (-pi,pi])",
    "density estimates with axial=False are checked for permutation invariance only (sign flips matter there by definition)",
]


def direction_spec():
    return st.one_of(
        st.fixed_dictionaries({"k": st.just("gen"), "v": st.lists(st.floats(-1, 1), min_size=3, max_size=3)}),
        st.fixed_dictionaries({"k": st.just("axis"), "i": st.integers(0, 2), "s": st.sampled_from([1.0, -1.0])}),
        st.fixed_dictionaries({"k": st.just("plane"), "i": st.integers(0, 2), "a": st.floats(0, 2 * math.pi)}),
        st.fixed_dictionaries({"k": st.just("nearz"), "e": st.floats(-17.0, -3.0), "a": st.floats(0, 2 * math.pi), "s": st.sampled_from([1.0, -1.0])}),
    )


def direction(spec):
    k = spec["k"]
    if k == "gen":
        v = np.asarray(spec["v"], dtype=float)
        n = np.linalg.norm(v)
        if n < 1e-6:
            return np.array([0.0, 0.0, 1.0])
        return v / n
    if k == "axis":
        v = np.zeros(3)
        v[spec["i"]] = spec["s"]
        return v
    if k == "plane":
        v = np.zeros(3)
        v[(spec["i"] + 1) % 3] = math.cos(spec["a"])
        v[(spec["i"] + 2) % 3] = math.sin(spec["a"])
        return v
    rho = 10.0 ** spec["e"]
    z = spec["s"] * math.sqrt(max(0.0, 1.0 - rho * rho))
    return np.array([rho * math.cos(spec["a"]), rho * math.sin(spec["a"]), z])


# spherical <-> cartesian ------------------------------------------------------------------


def check_conversion(case):
    pts = np.array([direction(d) * 10.0 ** m for d, m in zip(case["dirs"], case["mags"])])
    x, y, z = pts[:, 0], pts[:, 1], pts[:, 2]
    if case["scalar"]:
        x, y, z = float(x[0]), float(y[0]), float(z[0])
        pts = pts[:1]
    r, phi, theta = sut(G.to_spherical, x, y, z)
    r, phi, theta = (np.atleast_1d(np.asarray(a, dtype=float)) for a in (r, phi, theta))
    n = len(pts)
    require(r.shape == (n,) and phi.shape == (n,) and theta.shape == (n,), f"to_spherical returned shapes {r.shape}, {phi.shape}, {theta.shape}")
    rn = np.linalg.norm(pts, axis=1)
    require(np.all(np.isfinite(r)) and np.all(np.abs(r - rn) <= 1e-12 * rn), "radius is not the Euclidean norm")
    require(np.all(np.isfinite(theta)), f"colatitude not finite: {theta}")
    require(np.all(np.isfinite(phi)), f"longitude not finite: {phi}")
    require(np.all((theta >= -1e-15) & (theta <= math.pi + 1e-15)), f"colatitude {theta} outside [0, pi]")
    worst = 0.0
    for i in range(n):
        px, py, pz = pts[i]
        th_ref = math.atan2(math.hypot(px, py), pz)  # the angle from +z, well conditioned everywhere
        e = abs(theta[i] - th_ref)
        require(e <= 1e-14, f"colatitude {theta[i]!r} != angle from +z = {th_ref!r} for point {pts[i].tolist()}", e)
        worst = max(worst, e)
        if math.hypot(px, py) > 1e-9 * rn[i]:
            ph_ref = math.atan2(py, px)
            d = (phi[i] - ph_ref + math.pi) % (2 * math.pi) - math.pi
            require(abs(d) <= 1e-9, f"longitude {phi[i]!r} != atan2(y,x) = {ph_ref!r} (mod 2pi) for point {pts[i].tolist()}", abs(d))
    xb, yb, zb = sut(G.to_cartesian, phi, theta, r)
    back = np.column_stack([xb, yb, zb])
    e = float(np.abs(back - pts).max(axis=1, initial=0.0).max() / 1.0) if n == 0 else float((np.abs(back - pts).max(axis=1) / rn).max())
    # "the identity for every point": measured round-trip error of the conversion pair is
    # 3.8e-16 |v| over 2e5 points down to 1e-17 rad from either pole and |v| in 1e-150..1e150
    # (a colatitude from acos(z/r) would lose up to 1e-8 |v| near the poles: x and y vanish)
    tol_rt = 1e-13
    require(e <= tol_rt, f"cartesian -> spherical -> cartesian is not the identity (relative error {e:.3e}) for {pts.tolist()} -> (r,phi,theta)=({r.tolist()},{phi.tolist()},{theta.tolist()})", e)
    off_axis = any(np.count_nonzero(np.abs(p) > 1e-12 * np.linalg.norm(p)) >= 2 for p in pts)
    return {"nontrivial": bool(off_axis), "labels": [case["dirs"][0]["k"], "scalar" if case["scalar"] else "array"], "residual": max(worst, e)}


def check_sph_to_cart(case):
    """to_cartesian follows the documented convention and inverts through to_spherical."""
    phi, theta, r = case["phi"], case["theta"], 10.0 ** case["re"]
    x, y, z = (float(np.asarray(a).ravel()[0]) for a in sut(G.to_cartesian, phi, theta, r))
    ref = (r * math.sin(theta) * math.cos(phi), r * math.sin(theta) * math.sin(phi), r * math.cos(theta))
    e = max(abs(x - ref[0]), abs(y - ref[1]), abs(z - ref[2])) / r
    require(e <= 1e-14, f"to_cartesian({phi},{theta},{r}) = {(x, y, z)} != (r sin t cos p, r sin t sin p, r cos t)", e)
    r2, phi2, theta2 = (float(np.asarray(a).ravel()[0]) for a in sut(G.to_spherical, x, y, z))
    require(abs(r2 - r) <= 1e-12 * r, "radius does not round-trip")
    require(abs(theta2 - theta) <= 1e-7, f"colatitude {theta} reads back as {theta2}")
    if math.sin(theta) > 1e-6:
        d = (phi2 - phi + math.pi) % (2 * math.pi) - math.pi
        require(abs(d) <= 1e-7, f"longitude {phi} reads back as {phi2}", abs(d))
    return {"nontrivial": 1e-3 < theta < math.pi - 1e-3, "labels": [], "residual": e}


# poles ------------------------------------------------------------------------------------

REF_AXES = ["xy", "xz", "yx", "yz", "zx", "zy"]
hkl_spec = st.one_of(
    st.lists(st.integers(-3, 3), min_size=3, max_size=3).filter(lambda h: any(h)),
    st.lists(st.floats(-2, 2), min_size=3, max_size=3).filter(lambda h: sum(abs(x) for x in h) > 1e-3),
    st.sampled_from([[1, 0, 0], [0, 1, 0], [0, 0, 1]]),
)


def check_poles(case):
    A = gen.orientations(case["tex"])
    if case["upper"]:
        A = np.asfortranarray(A)  # same values, Fortran memory order
    hkl = case["hkl"]
    ra = case["ref_axes"]
    ra_in = ra.upper() if case["upper"] else ra
    A_in = A.copy()
    xs, ys, zs = sut(G.poles, A_in, ref_axes=ra_in, hkl=list(hkl))
    require(np.array_equal(A_in, A), "poles() modified the orientation array")
    n = len(A)
    xs, ys, zs = (np.asarray(a, dtype=float) for a in (xs, ys, zs))
    require(xs.shape == (n,) and ys.shape == (n,) and zs.shape == (n,), f"pole arrays have shapes {xs.shape}, {ys.shape}, {zs.shape}")
    h = np.asarray(hkl, dtype=float)
    d = np.einsum("gij,i->gj", A, h)  # crystal direction h expressed in the external frame
    d /= np.linalg.norm(d, axis=1)[:, None]
    idx = {"x": 0, "y": 1, "z": 2}
    up = ({"x", "y", "z"} - set(ra)).pop()
    ref = (d[:, idx[ra[0]]], d[:, idx[ra[1]]], d[:, idx[up]])
    e = max(float(np.abs(xs - ref[0]).max()), float(np.abs(ys - ref[1]).max()), float(np.abs(zs - ref[2]).max()))
    require(e <= 1e-12, f"poles(ref_axes={ra_in!r}, hkl={hkl}) differ from the crystal direction in the external frame by {e:.3e}", e)
    nrm = np.sqrt(xs**2 + ys**2 + zs**2)
    require(float(np.abs(nrm - 1).max()) <= 1e-12, "poles are not unit vectors")
    distinct = bool(np.abs(A - A[0]).max() > 1e-9)
    off = np.count_nonzero(h) >= 2
    return {"nontrivial": bool(distinct and off and n >= 2), "labels": [ra, "int" if all(isinstance(v, int) for v in hkl) else "real"], "residual": e}


# Lambert projection -------------------------------------------------------------------------


def check_lambert(case):
    vs = np.array([direction(d) for d in case["dirs"]])
    if case["scalar"]:
        vs = vs[:1]
        X, Y = sut(G.lambert_equal_area, float(vs[0, 0]), float(vs[0, 1]), float(vs[0, 2]))
    else:
        X, Y = sut(G.lambert_equal_area, vs[:, 0].copy(), vs[:, 1].copy(), vs[:, 2].copy())
    X = np.atleast_1d(np.asarray(X, dtype=float))
    Y = np.atleast_1d(np.asarray(Y, dtype=float))
    n = len(vs)
    require(X.shape == (n,) and Y.shape == (n,), f"projection returned shapes {X.shape}, {Y.shape}")
    require(np.all(np.isfinite(X)) and np.all(np.isfinite(Y)), f"projection not finite for {vs.tolist()}")
    R2 = X**2 + Y**2
    require(np.all(R2 <= 1 + 1e-12), f"projected point outside the unit disk: R^2 = {R2.max()!r}")
    worst = 0.0
    far = False
    for i in range(n):
        x, y, z = vs[i]
        rho2 = x * x + y * y
        # exact for unit vectors: 1-|z| = rho^2/(1+|z|); avoids the cancellation of 1-|z|
        target = rho2 / (1 + abs(z))
        tol = 1e-12 + 4e-16 / max(math.sqrt(rho2), 1e-300) * math.sqrt(rho2) + 3e-16  # rounding of 1-|z|
        e = abs(R2[i] - target)
        require(e <= max(tol, 2.3e-16 * 2), f"squared radius {R2[i]!r} != 1-|z| = {target!r} for unit vector {vs[i].tolist()}", e)
        worst = max(worst, e)
        if R2[i] > 1e-14 and rho2 > 1e-28:
            a1 = math.atan2(Y[i], X[i])
            a0 = math.atan2(y, x)
            d = (a1 - a0 + math.pi) % (2 * math.pi) - math.pi
            require(abs(d) <= 1e-9, f"azimuth changed by {d:.3e} rad for unit vector {vs[i].tolist()}", abs(d))
        if math.sqrt(rho2) > 1e-6:
            far = True
    return {"nontrivial": far, "labels": [case["dirs"][0]["k"], "scalar" if case["scalar"] else "array"], "residual": worst}


def check_lambert_inverse(case):
    """Lifting a disk point to the upper hemisphere and projecting it back is the identity."""
    R = case["R"]
    a = case["a"]
    X, Y = R * math.cos(a), R * math.sin(a)
    R2 = X * X + Y * Y
    z = 1 - R2
    s = math.sqrt(max(0.0, 2 - R2))
    x, y = X * s, Y * s
    for sign in (1.0, -1.0):  # both hemispheres fold onto the same disk point
        Xb, Yb = sut(G.lambert_equal_area, x, y, sign * z)
        e = max(abs(float(Xb[0]) - X), abs(float(Yb[0]) - Y))
        # 1-|z| is recomputed from the rounded z: absolute error ~1.1e-16 in R^2, i.e. 1e-16/R in R
        require(e <= 1e-12 + 4e-16 / max(R, 1e-8), f"lambert(lift(X,Y)) = ({float(Xb[0])!r},{float(Yb[0])!r}) != ({X!r},{Y!r})", e)
    return {"nontrivial": 1e-6 < R < 1 - 1e-6, "labels": [], "residual": e}


# point density ------------------------------------------------------------------------------

KERNELS = ["kamb_count", "schmidt_count", "exponential_kamb", "linear_inverse_kamb", "square_inverse_kamb"]


def density_case():
    return st.fixed_dictionaries(
        {
            "n": st.integers(1, 300),
            "fam": st.sampled_from(["random", "clustered", "single", "antipodal"]),
            "seed": gen.small_seed,
            "grid": st.integers(5, 41),
            "kernel": st.sampled_from(KERNELS),
            "sigma": st.floats(3.0, 20.0),
            "axial": st.booleans(),
            "weight": st.one_of(st.just(1.0), st.floats(0.1, 10.0)),
            "perm": gen.small_seed,
        }
    )


def _data(case):
    rng = np.random.default_rng(case["seed"])
    n = case["n"]
    if case["fam"] == "random":
        v = rng.normal(size=(n, 3))
    elif case["fam"] == "clustered":
        v = rng.normal(size=3) + 0.2 * rng.normal(size=(n, 3))
    elif case["fam"] == "single":
        v = np.repeat(rng.normal(size=(1, 3)), n, axis=0)
    else:
        half = rng.normal(size=((n + 1) // 2, 3))
        v = np.concatenate([half, -half])[:n]
    return v / np.linalg.norm(v, axis=1)[:, None]


def _density(v, case, **over):
    kw = dict(gridsteps=case["grid"], weights=case["weight"], kernel=case["kernel"], axial=case["axial"])
    if case["kernel"] != "schmidt_count":
        kw["σ"] = case["sigma"]
    kw.update(over)
    return sut(S.point_density, v[:, 0].copy(), v[:, 1].copy(), v[:, 2].copy(), **kw)


def check_density(case):
    v = _data(case)
    g = case["grid"]
    Xg, Yg, T = _density(v, case)
    require(Xg.shape == (g, g) and Yg.shape == (g, g) and T.shape == (g, g), f"grid shapes {Xg.shape}, {Yg.shape}, {T.shape} for gridsteps={g}")
    if not np.all(np.isfinite(T)):
        # normalisation by a vanishing grid mean: reported as a violation of 'finite'
        raise Violation(f"density estimate not finite ({case['kernel']}, n={case['n']}, grid={g})")
    require(T.min() >= 0.0, f"negative density estimate {T.min()!r}")
    require(np.all(np.isfinite(Xg)) and np.all(np.isfinite(Yg)), "grid coordinates not finite")
    require(float((Xg**2 + Yg**2).max()) <= 1 + 1e-12, "grid point outside the closed unit disk")
    mean = float(T.mean())
    require(mean >= 1 - 1e-9, f"grid mean {mean!r} < 1 after normalisation and clipping")
    if np.all(T > 0):
        require(abs(mean - 1) <= 1e-9, f"grid mean {mean!r} != 1 although nothing was clipped")
    # "normalised to a grid mean of 1 before the clipping of negative estimates": rebuild the raw
    # estimates from the documented counting grid and pydrex's own kernel functions, normalise,
    # clip, and compare.  Skipped (labelled) if the returned grid is not the documented one.
    labels_extra = []
    rho, h = np.mgrid[-np.pi : np.pi : g * 1j, -1 : 1 : g * 1j]
    phi_c = np.pi / 2 - rho.ravel()
    th_c = np.pi / 2 - np.arcsin(h.ravel())
    counters = np.column_stack([np.sin(th_c) * np.cos(phi_c), np.sin(th_c) * np.sin(phi_c), np.cos(th_c)])
    Xc = np.sqrt(np.maximum(0.0, 1 - np.abs(counters[:, 2])) / np.maximum(counters[:, 0] ** 2 + counters[:, 1] ** 2, 1e-300)) * counters[:, 0]
    Yc = np.sqrt(np.maximum(0.0, 1 - np.abs(counters[:, 2])) / np.maximum(counters[:, 0] ** 2 + counters[:, 1] ** 2, 1e-300)) * counters[:, 1]
    if np.abs(Xc.reshape(g, g) - Xg).max() <= 1e-9 and np.abs(Yc.reshape(g, g) - Yg).max() <= 1e-9:
        kern = S.SPHERICAL_COUNTING_KERNELS[case["kernel"]]
        kw = {"axial": case["axial"]}
        if case["kernel"] != "schmidt_count":
            kw["σ"] = case["sigma"]
        raw = np.empty(len(counters))
        for ci, c in enumerate(counters):
            prod = v @ c
            if case["axial"]:
                prod = np.abs(prod)
            dens, scale = kern(prod, **kw)
            raw[ci] = (np.sum(dens * case["weight"]) - 0.5) / scale
        mraw = raw.mean()
        if np.isfinite(mraw) and abs(mraw) > 1e-12 * max(np.abs(raw).max(), 1e-300):
            expect = raw / mraw
            expect[expect < 0] = 0
            e = float(np.abs(T.ravel() - expect).max()) / max(expect.max(), 1.0)
            require(e <= 1e-9, f"density is not the kernel estimate normalised to a grid mean of 1 before clipping (relative deviation {e:.3e}, {case['kernel']}, {int((raw / mraw < 0).sum())} negative estimates)", e)
            labels_extra.append("normalisation_checked")
    else:
        labels_extra.append("grid_differs")
    rng = np.random.default_rng(case["perm"])
    vp = v[rng.permutation(len(v))]
    _, _, Tp = _density(vp, case)
    sc = max(T.max(), 1.0)
    e = float(np.abs(Tp - T).max()) / sc
    require(e <= 1e-9, f"density changes by {e:.3e} (relative) when the data are reordered ({case['kernel']})", e)
    worst = e
    if case["axial"]:
        flips = rng.choice([-1.0, 1.0], size=(len(v), 1))
        _, _, Tf = _density(v * flips, case)
        e = float(np.abs(Tf - T).max()) / sc
        require(e <= 1e-9, f"axial density changes by {e:.3e} (relative) when data signs are flipped ({case['kernel']})", e)
        worst = max(worst, e)
    return {
        "nontrivial": case["n"] >= 10,
        "labels": [case["kernel"], "axial" if case["axial"] else "polar", case["fam"], "clipped" if np.any(T == 0) else "unclipped"] + labels_extra,
        "residual": worst,
    }


def _raw_totals(case):
    """Raw (un-normalised) estimates on the documented counting grid, from pydrex's own kernel
    functions: (sum of kernel values * weight - 0.5) / scale for every counting location."""
    v = _data(case)
    g = case["grid"]
    rho, h = np.mgrid[-np.pi : np.pi : g * 1j, -1 : 1 : g * 1j]
    phi = np.pi / 2 - rho.ravel()
    theta = np.pi / 2 - np.arcsin(h.ravel())
    c = np.column_stack([np.sin(theta) * np.cos(phi), np.sin(theta) * np.sin(phi), np.cos(theta)])
    kern = S.SPHERICAL_COUNTING_KERNELS[case["kernel"]]
    kw = {"axial": case["axial"]}
    if case["kernel"] != "schmidt_count":
        kw["σ"] = case["sigma"]
    raw = np.empty(len(c))
    with np.errstate(all="ignore"):
        for ci, cc in enumerate(c):
            prod = v @ cc
            if case["axial"]:
                prod = np.abs(prod)
            dens, scale = kern(prod, **kw)
            raw[ci] = (np.sum(dens * case["weight"]) - 0.5) / scale
    return raw, c


def classify_density(case):
    """'zero_grid_mean': the raw estimates average to zero over the grid (e.g. no counting
    location sees any datum, or every location sees exactly the expected count), so the
    normalisation to unit mean is 0/0 - a known finding; otherwise the kernel name."""
    try:
        raw, _ = _raw_totals(case)
        m = raw.mean()
        # only a finite mean of (numerically) zero is the known 0/0 situation; a non-finite raw
        # estimate is not
        if np.isfinite(m) and np.all(np.isfinite(raw)) and abs(m) <= 1e-12 * max(np.abs(raw).max(), 1e-300):
            return "zero_grid_mean"
    except Exception:  # noqa: BLE001
        pass
    return case["kernel"]


def check_density_known_sparse(case):
    """Known finding: all raw Schmidt counts are zero, so normalising by the grid mean is
    0/0 and every estimate is NaN; shapes and grid geometry are still checked."""
    v = _data(case)
    g = case["grid"]
    Xg, Yg, T = _density(v, case)
    require(Xg.shape == (g, g) and Yg.shape == (g, g) and T.shape == (g, g), "grid shapes")
    require(float((Xg**2 + Yg**2).max()) <= 1 + 1e-12, "grid point outside the closed unit disk")
    require(np.all(np.isnan(T)) or (np.all(np.isfinite(T)) and T.min() >= 0), "estimates are neither all-NaN (known 0/0) nor valid")
    return {"nontrivial": False, "labels": ["known_sparse"], "residual": 0.0}


def check_density_any(case):
    """Many-data cases run every kernel on the same data (a kernel in the known 0/0 situation
    is checked against the known-behaviour model, exactly as a generated case of that class)."""
    if not case.get("all_kernels"):
        return check_density(case)
    info = None
    for k in KERNELS:
        sub = dict(case, kernel=k, all_kernels=False)
        r = check_density_known_sparse(sub) if classify_density(sub) == "zero_grid_mean" else check_density(sub)
        info = r if info is None or r.get("nontrivial") else info
    info = dict(info)
    info["labels"] = list(info.get("labels", [])) + ["all_kernels_many_data"]
    return info


ORACLES = [
    Oracle(
        "cartesian_spherical_roundtrip",
        st.fixed_dictionaries(
            {
                "dirs": st.lists(direction_spec(), min_size=1, max_size=6),
                "mags": st.lists(st.one_of(st.just(0.0), st.floats(-150.0, 150.0)), min_size=6, max_size=6),
                "scalar": st.booleans(),
            }
        ),
        check_conversion,
        quick=600,
        thorough=4000,
    ),
    Oracle(
        "spherical_convention",
        st.fixed_dictionaries({"phi": st.floats(0.0, 2 * math.pi - 1e-9), "theta": st.floats(0.0, math.pi), "re": st.floats(-100.0, 100.0)}),
        check_sph_to_cart,
        quick=400,
        thorough=3000,
    ),
    Oracle(
        "poles",
        st.fixed_dictionaries(
            {"tex": gen.texture_spec(1, 60, 8), "hkl": hkl_spec, "ref_axes": st.sampled_from(REF_AXES), "upper": st.booleans()}
        ),
        check_poles,
        classify=lambda c: c["ref_axes"],
        quick=500,
        thorough=3000,
    ),
    Oracle(
        "lambert",
        st.fixed_dictionaries({"dirs": st.lists(direction_spec(), min_size=1, max_size=6), "scalar": st.booleans()}),
        check_lambert,
        quick=600,
        thorough=4000,
    ),
    Oracle(
        "lambert_inverse",
        st.fixed_dictionaries({"R": st.one_of(st.floats(0.0, 1.0), st.floats(0.0, 1e-6), st.floats(1 - 1e-6, 1.0)), "a": st.floats(0, 2 * math.pi)}),
        check_lambert_inverse,
        quick=400,
        thorough=3000,
    ),
    Oracle(
        "point_density",
        # one case in six: thousands of data on a coarse grid (the kernels' parameters depend on
        # n / sigma^2)
        st.one_of(
            density_case(),
            density_case(),
            st.builds(
                lambda c, n, g, sg: dict(c, n=n, grid=g, sigma=sg, all_kernels=True),
                density_case(),
                st.one_of(st.integers(3000, 40000), st.sampled_from([3200, 3500, 36000, 40000])),
                st.integers(5, 13),
                st.sampled_from([3.0, 5.0, 10.0]),
            ),
            density_case(),
            density_case(),
            density_case(),
        ),
        check_density_any,
        classify=classify_density,
        known_models={"zero_grid_mean": check_density_known_sparse},
        quick=96,
        thorough=600,
    ),
]
SHARDS = {"quick": 4, "thorough": 16}
