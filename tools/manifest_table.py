"""Per-property manifest entries (edited by hand, rendered by mkmanifest.py)."""
T_PBT = "property-based testing (Hypothesis): "
CHECKS = {
 "C15": {
  "technique": T_PBT + "membership/pairing/shape/seed invariants, binomial distribution test, exhaustive malformed-shape list",
  "text": "resample_orientations on generated stacks (N<=4, M<=200, volumes with zeros/duplicates/dominant grain, n_samples up to 1e5; 1e6 thorough): every output (orientation, volume) pair is an input pair of the same snapshot, zero-volume grains never drawn, shapes and default n_samples, same seed => identical bytes; per-grain counts vs Binomial(n, f) with z<=7 for n>=2e4 and convergence of a sample mean; 22 malformed shape combinations must raise ValueError.",
  "note": "No sample-path oracle (any correct sampler passes). A uniform variate exactly 0.0 (probability 2^-53 per draw) would select a zero-volume grain: unreachable by sampling seeds.",
 },
 "C16": {
  "technique": T_PBT + "round trip over generated schemas and tables, independent parsing of the written file, single-fault injection",
  "text": "save_scsv/read_scsv on generated schemas (95 delimiters, markers incl. '' and Unicode, 1..8 fields over five types, typed and string-form fills, YAML-significant strings, units) and tables (1..10 rows; tiled to 1e4 in thorough) incl. planted fill-equal cells and wholly missing rows (numeric tables with tab/comma/semicolon delimiters and empty or short markers), '---', quotes, delimiter characters: names and typed values round-trip, the marker sits exactly where cell==fill (independent csv parse of the file); terse-schema parser feeds a second family; 17 fault kinds (schema and data, save and read side) must raise SCSVError.",
  "note": "Markers that parse as numeric/boolean literals and field names that namedtuple rejects (keywords, leading underscore, duplicates) are outside the generated domain; stated in the rule. Booleans are never written as marker (format spec).",
 },
 "C17": {
  "technique": T_PBT + "model-based stateful testing: Hypothesis RuleBasedStateMachine and generated save/load/fault sequences against an in-memory model of the archives",
  "text": "Operation sequences (from a Hypothesis rule-based state machine with preconditions and a per-step recoverability invariant, and from drawn operation lists; same executor, same replay format) over a temp directory with two archives: saves (whole file / distinct postfixes) of minerals with arbitrary float64 bit patterns (NaN payloads, inf, -0.0, denormals), loads through Mineral.load into an object of a different grain count and through Mineral.from_file in any order, fault steps (unequal snapshot counts, n_grains mismatch, later snapshot of wrong size, non-.npz names). After every load: phase/fabric/regime/n_grains equal and every snapshot bit-identical to the model; after every step the directory listing matches the model; faults raise ValueError without touching the disk; final sweep reloads everything in reverse order.",
  "note": "Whole-file save is modelled as overwrite (numpy.savez). save() under a non-.npz name need not raise; if it raises nothing may be written.",
 },
 "C18": {
  "technique": T_PBT + "differential testing against closed-form and finite-difference Jacobians, independent ODE integration of pathlines, numpy reference for strain increments",
  "text": "For the three flow families x six axis pairs x amplitudes 1e-15..1e2 x sizes 1e-2..1e6 at generated interior points: L equals the closed-form Jacobian (1e-9) and the Richardson finite-difference Jacobian of the velocity callable (1e-5), tr L = 0, flow confined to its plane. Pathlines for generated boxes/end points/strain limits: returned, end at the final location at t=0, strictly increasing timestamps, agree with an independent DOP853 backward integration within 1e-3 box, stay in the box, accumulated strain <= 1.25 max. strain_increment vs numpy (1e-10). Known findings (simple-shear L=2*Jacobian, cell_2d exchanged entries, root-finder ValueError) are replaced by exact known-behaviour models so that further deviations are still reported.",
  "note": "The three known findings are pinned by doctests or need a redesign; see KNOWN_FINDINGS.txt.",
 },
 "C19": {
  "technique": T_PBT + "round trip of parameter records, exhaustive preset check against values extracted from source with ast, model-based generation of TOML configurations with single-fault injection",
  "text": "DefaultParams: frozen, hashable, as_dict round trip with generated overrides. Every preset class of pydrex.mock x every declared value (ast-extracted) by attribute and as_dict (exhaustive). parse_config on TOML generated from a model over 4 input modes x subsets of 15 [parameters] keys x 6 [output] keys x phase lists by name/ordinal in both orders x fabric letters: every omitted optional key takes its documented default (numeric defaults stated in the spec files are pinned in a table), invariants (equal-length lists, fractions sum to 1, enum types); 13 fault kinds must raise ConfigError.",
  "note": "Documented defaults taken from the bundled spec files' comments and DefaultParams.",
 },
 "C20": {
  "technique": T_PBT + "round trips, closed-form oracles, metamorphic permutation/sign-flip invariance",
  "text": "to_spherical/to_cartesian on points of magnitude 1e-150..1e150 incl. axes, planes and near-pole directions: identity (1e-12, widened by 2e-15/sin(theta) near the poles), phi = atan2(y,x) mod 2pi, theta = acos(z/r). poles(): unit vectors equal to the crystal direction in the external frame with the documented component permutation for the six ref_axes strings. lambert_equal_area: R^2 = 1-|z|, azimuth preserved, closed unit disk, inverse lifting identity. point_density for five kernels, sigma 3..20, axial on/off, 1..300 data, grids 5..41: finite, >=0, grid in the disk, mean >=1 (=1 unclipped), equal (1e-9) to the raw kernel estimates on the documented counting grid normalised to unit mean and then clipped, invariant under data permutation and (axial) sign flips.",
  "note": "Known finding: when the raw estimates average to zero over the grid the normalisation is 0/0 (NaN); that class (zero_grid_mean) is checked against the known behaviour only. Raw estimates are rebuilt with pydrex's own kernel functions, so kernels are trusted, grid and normalisation are checked.",
 },
 "C10": {
  "technique": T_PBT + "differential testing against an einsum reference; texture-independent invariants; metamorphic frame rotation and list reordering; fault injection for malformed inputs",
  "text": "voigt_averages on generated minerals (1..3 snapshots, 1..24 grains, all texture/volume families), assemblages [ol],[en],[ol,en],[en,ol] with minerals in either order, fractions k/1000, default or custom (orthorhombic/triclinic) stiffness: equals the einsum volume-weighted sum (1e-9 rel), symmetric, K_V and G_V equal the phase-weighted single-crystal moduli, co-rotates with Q, independent of mineral and phase-list order; one aligned grain returns C_phase; mismatched grain/snapshot counts raise ValueError.",
  "note": "Reference uses R=A^T (rows of A are crystal axes) and an independently written Voigt index map.",
 },
 "C12": {
  "technique": T_PBT + "closed-form oracles (moduli, percent anisotropy) and metamorphic frame rotation of generated orthorhombic tensors and Voigt averages",
  "text": "elasticity_components on (a) built-in and generated positive-definite orthorhombic tensors rotated by generated Q: K,G = Voigt invariants, percent anisotropy = norm distance to isotropic part, monoclinic=triclinic=0, squared class percentages add up to anisotropy^2, all percentages frame independent (1e-7), hexagonal axis unit, = +-Q.axis0 and equal to the coordinate axis of the closest hexagonal approximation, class percentages equal to an own projector-chain decomposition about that axis (1e-7); (b) Voigt averages of generated textures: frame independence (1e-6); (c) arbitrary symmetric PD matrices: moduli/anisotropy/ranges.",
  "note": "Cases with contraction eigenvalue gaps <1e-3*norm or a nearly tied symmetry-axis permutation are excluded and counted (axes ill-conditioned there).",
 },
 "C13": {
  "technique": T_PBT + "differential vs own scatter-matrix eigen-decomposition / SVD; metamorphic rotation, permutation, symmetry relabelling",
  "text": "symmetry_pgr, coaxial_index, bingham_average on generated textures (1..300 grains; 1e4 thorough) for axes a,b,c: ranges, sum to 1, equality with own eigen-decomposition of sum a a^T, invariance under permutation / lattice two-folds / frame rotation (axis co-rotates up to sign). finite_strain on generated F (stretch ratios up to 1e6, raw invertible, simple shears): sigma_max-1 and +-u1 from SVD, F->FQ invariant, F->QF co-rotating; simple-shear axis angle equals angle_fse_simpleshear and the SVD angle.",
  "note": "Axes compared only when the eigenvalue gap is >1e-6 relative; coaxial index only when P+G>1e-6.",
 },
 "C14": {
  "technique": T_PBT + "metamorphic relations (permutation, frame rotation, symmetry relabelling), limit cases against an independent reference M-index, quadrature of the theoretical density, differential batched-vs-single over worker counts",
  "text": "misorientation_index for all six lattice systems on generated textures (2..60 grains; 400 thorough): range, permutation invariance (exact), frame-rotation and symmetry-relabel invariance (1e-6, or (k+1)/pairs when k pairs sit on a 1-degree bin edge), uniform textures below 3x the sampling level of an independent correct reference index (vlib/ref_mindex.py), single orientation >=0.95, theoretical density integrates to 1 (1e-3) for several bin counts; misorientation_indices equals per-snapshot values in order for worker counts 1..16 and external pools. 25 known findings (three root causes) are listed in KNOWN_FINDINGS.txt; their (oracle, lattice system) classes are excluded or replaced by a weaker known-behaviour model, everything else stays active.",
  "note": "Schedules: pool size/provenance and per-item texture are varied; the OS scheduler is not controlled. Only the triclinic system satisfies every oracle on this tree.",
 },
 "C04": {
  "technique": T_PBT + "metamorphic relations (frame rotation, lattice two-folds) at rate level and over paired integrated histories",
  "text": "Metamorphic search: for generated solver inputs and generated proper rotations Q, derivatives(QLQ^T, A Q^T) must equal (Adot Q^T, fdot) to 1e-10; for generated grain subsets and two-folds S, derivatives(S A) = (S Adot, fdot) to 1e-13. Paired Mineral histories in original and rotated frame (tight solver tolerances through the documented kwargs, compared at 1e-6 incl. Q^T F' Q = F) and symmetry-relabelled histories (default tolerances, 1e-9). Exploration only.",
  "note": "Activity ties and grains within 1e-6 of the sliding threshold are excluded and counted (model discontinuities). No-slip grains are included (this found the dropped rigid rotation).",
 },
 "C05": {
  "technique": T_PBT + "metamorphic relation (time rescaling by k in 1e-19..1e19) over paired generated histories",
  "text": "Each generated history is run at two strain-rate scales 10^u, 10^u2 (u,u2 in [-16,3]) with the time axis compressed accordingly; all snapshots and F must agree within the statement's solver-tolerance bound; the observed maximum difference (1e-12 class) is reported.",
  "note": "Bound is loose by the statement's own wording; a single dropped or doubled scaling moves textures by O(0.1-1) for |log10 k|>=1.",
 },
 "C07": {
  "technique": T_PBT + "invariant over generated histories under null forcing; exhaustive ordinal grid; single-fault injection for failed updates",
  "text": "Generated histories with L==0, viscosity-bound regimes (constructor and callback), M*=0: snapshots unchanged (1e-12 / 1e-9) while F follows an independent ODE solution. Solver-level ordinal grid regime -2..10 x phase 0..3 x fabric 0..7 enumerated per generated texture (raise vs finite arrays). Failed updates (unsupported regime via constructor or callback mid-interval, invalid fabric/phase, velocity-gradient callable raising mid-interval, after 0..3 good updates): must raise and leave stored history byte-identical.",
  "note": "Invalid phase/fabric only required to raise in regimes that look them up (dislocation-type). chi set to 0 when an initial fraction is below chi/n (C09's floor would legitimately act).",
 },
 "C08": {
  "technique": T_PBT + "differential/metamorphic relations over multiphase histories; generated interleavings of update queues (stateful)",
  "text": "Generated two-phase assemblages in both orders with fractions k/1000: (a) multiphase = single-phase with M* x own fraction (solver-tolerance bound) plus exact observation that the solver receives the listed fraction of the mineral's own phase; (b)(c)(e) list permutation, mineral order in update_all (identical F inputs per step), bulk vs separate, twins: byte-identical; (d) 2..4 minerals with own update queues run in a generated interleaving vs isolated: byte-identical.",
  "note": "Observation of the solver argument uses the public module attribute pydrex.core.derivatives (looked up at call time). F across mineral orders only agrees at solver tolerance (integrated with a different mineral).",
 },
 "C09": {
  "technique": T_PBT + "differential testing of apply_gbs against a reference written from the statement; invariant over generated histories with an observed sliding step",
  "text": "apply_gbs vs 5-line numpy reference on generated inputs incl. exact threshold ties, all/none floored (byte-equality of orientations, fractions to 1e-13, bound chi/(n(1+chi)), ordering, chi=0). History level: updates with chi in [0.2,0.9], M*>=50; after every update the stored snapshot equals floor+renormalise of the integrated state, floored grains hold the start-of-update orientation byte-for-byte, reference orientations handed to the sliding step are the start-of-update snapshot.",
  "note": "Integrated pre-floor state observed via the public attribute pydrex.utils.apply_gbs (last call of each update).",
 },
 "C01": {
  "technique": T_PBT + "model-based update histories (generated operation sequences) with a validity invariant after every step",
  "text": "Generated update histories (mineral x accepted regime x texture x parameters x velocity-gradient history x pathline x partition into 1..100 updates issued via update_orientations / update_all / regime-switching callback) with the snapshot-validity invariant of the statement (shape, finiteness, simplex, entries in [-1,1], handedness, max|A.A^T-I| <= 5e-3+1e-3(N+2 strain), append-only, earlier snapshots byte-identical) checked after every update; default-constructed minerals checked for validity and seed reproducibility. Exploration: hundreds of histories per quick run, no proof.",
  "note": "Strain integral by 201-point trapezoid per update; IterationError from LSODA counts as 'rejected'. Known finding matrix_diffusion: orthonormality part excluded for that regime only (all other parts still checked).",
 },
 "C02": {
  "technique": T_PBT + "differential testing against an independent reference model of the published D-Rex equations; compiled vs interpreted source",
  "text": "core.derivatives is compared on generated (fabric, regime, orientations, volumes, velocity gradient, p, n, lambda*, M*, phi) with vlib/ref_drex.py, an independent vector-form transcription of Kaminski & Ribe 2001 / Kaminski et al. 2004 / Fraters & Billen 2021 (tolerance 1e-10*(1+M*); measured agreement 2e-15), and with the same source executed under NUMBA_DISABLE_JIT=1 in a worker process. Exploration over ~1500 (quick) / 1e5 (thorough) cases.",
  "note": "Reference model is trusted as the statement of the published equations. Excluded and counted: grains with max activity <1e-9, exact inac/min activity ties; volume rates not compared when |gamma|<1e-6 (non-Lipschitz energy).",
 },
 "C03": {
  "technique": T_PBT + "algebraic invariants and metamorphic relations (linearity, pair decomposition) over generated solver inputs incl. degenerate grains",
  "text": "Generated solver inputs (all fabrics, both dislocation regimes, axis-aligned and near-aligned grains under axis-aligned flows, zero volumes, dominant grains, zero gradient, scales 0.1..10, up to 1e5 grains) checked for: finite outputs and no exception, A^T.Adot skew (1e-12), sum of volume rates 0 (1e-11(1+M*)), dead grains exactly 0, exact linearity in M* and phi, orientation rates independent of M*, phi, f, N-grain volume rates reconstructed from two-grain calls (pair decomposition), growth sign vs volume-weighted mean energy.",
  "note": "Slip invariants in the denormal range (0<|I|<1e-290, 1/I overflows) are excluded and counted: unreachable from callers. Growth-sign oracle uses both solver-derived pair energies and the reference model.",
 },
 "C06": {
  "technique": T_PBT + "differential testing of returned F against independent ODE solutions (DOP853, expm) over generated histories",
  "text": "For generated histories (any mineral/regime/parameters, non-identity starting F, constant/time-/position-dependent L along generated pathlines, 1..12 updates, single and bulk update) the returned F is compared after every update with scipy DOP853 (rtol 1e-12) and expm; det F vs exp(int tr L); independence from mineral/parameters; split interval vs whole; bulk multiphase vs single. Bound: the property's 5e-3+1e-3(N+2 strain) at default tolerances, 1e-6 with rtol=1e-10 passed through.",
  "note": "Trusted: scipy solve_ivp/expm. Observed residual <= 5% of the bound on the healthy tree.",
 },
 "C11": {
  "technique": T_PBT + "round trips, differential vs einsum reference, exhaustive index/projector enumeration",
  "text": "Generated-input search (thousands of symmetric 6x6 matrices, 21-vectors, rotations incl. axis-aligned/near-aligned, 3x3 matrices incl. singular/rank-1/zero) against explicit oracles: own Voigt index map + einsum for the tensor/contraction/rotation laws, exact inverse pairs, isometry, group action, projector matrices built from all 21 basis vectors (idempotent, symmetric, nested, ranks 13/9/6/5), polar-factor validity in the documented order, invariants vs eigenvalues. Exploration only: no proof of absence.",
  "note": "Trusted: numpy einsum/svd/eigvals as reference; tolerances 1e-14..1e-9 relative stated in checks/c11.py. Finite index spaces are enumerated exhaustively, float inputs are sampled.",
 },
}
ALL = [f"C{i:02d}" for i in range(1, 21)]
NOT_APPLICABLE = {p: "check under construction in this session (technique applies; see DESIGN.md section 3)" for p in ALL if p not in CHECKS}
