"""Per-property manifest entries (edited by hand, rendered by mkmanifest.py)."""
T_PBT = "property-based testing (Hypothesis): "
CHECKS = {
 "C11": {
  "technique": T_PBT + "round trips, differential vs einsum reference, exhaustive index/projector enumeration",
  "text": "Generated-input search (thousands of symmetric 6x6 matrices, 21-vectors, rotations incl. axis-aligned/near-aligned, 3x3 matrices incl. singular/rank-1/zero) against explicit oracles: own Voigt index map + einsum for the tensor/contraction/rotation laws, exact inverse pairs, isometry, group action, projector matrices built from all 21 basis vectors (idempotent, symmetric, nested, ranks 13/9/6/5), polar-factor validity in the documented order, invariants vs eigenvalues. Exploration only: no proof of absence.",
  "note": "Trusted: numpy einsum/svd/eigvals as reference; tolerances 1e-14..1e-9 relative stated in checks/c11.py. Finite index spaces are enumerated exhaustively, float inputs are sampled.",
 },
}
ALL = [f"C{i:02d}" for i in range(1, 21)]
NOT_APPLICABLE = {p: "check under construction in this session (technique applies; see DESIGN.md section 3)" for p in ALL if p not in CHECKS}
