#!/usr/bin/env python3
"""Render the prompt handed to a fresh sub-agent for one more seeded change per property.

usage: tools/seed_prompts.py <suffix>          e.g. `e` writes /tmp/seedout/C01e.prompt.txt ...

The prompt contains only: the property's text (id, title, statement, quantifier), the path of
the agent's scratch worktree, the acceptance conditions, and a DIVERSITY NOTE with the one-line
summaries of the changes previous agents made for the same property (so that the new one
differs).  Nothing about /verif, its checks or their oracles is disclosed."""
import glob, json, os, sys

ROOT = os.path.dirname(os.path.dirname(os.path.abspath(__file__)))
TEMPLATE_NAME = "C08d"
# what the code base already violates (pinned by existing tests), so that agents aim elsewhere
EXTRA_NOTES = {'C14': 'Note: the code base satisfies the invariance parts of the statement only for the triclinic lattice system (other systems have pre-existing defects pinned by tests), so aim at behaviour that currently DOES hold. ', 'C18': "Note: three deviations already exist in the code base and are pinned by doctests (simple_shear_2d's gradient is twice the Jacobian of its velocity; cell_2d's two vertical-row gradient entries are exchanged; get_pathline occasionally raises a root-finder ValueError) - do not rely on those. "}


def main():
    suffix = sys.argv[1]
    tmpl = open(os.path.join(ROOT, "tools", "seed_prompt_template.txt")).read()  # the C08d prompt
    a = tmpl.index("-----\n") + 6
    b = tmpl.index("-----\n", a)
    c = tmpl.index("DIVERSITY NOTE:")
    d = tmpl.index("YOUR TASK:")
    head, tail = tmpl[:a], tmpl[d:]
    props = {}
    for line in open(os.path.join(ROOT, "properties.jsonl")):
        p = json.loads(line)
        props[p["id"]] = p
    tricks = (
        " Also avoid the general tricks already used across this project: truthiness tests on 0 / seed 0 / "
        "ordinal 0, caches with incomplete keys, np.ravel order='K', in-place scaling of an argument or of an "
        "array returned by a user callback, np.allclose / absolute thresholds that are too wide for small "
        "magnitudes, guards moved inside a loop, validation that looks only at the first element, regime "
        "early-returns. Think about other realistic slips: a boundary condition (< vs <=), an index or axis "
        "mix-up that only matters for non-square / non-symmetric / non-default cases, a wrong variable reused "
        "in a loop, a sign or transpose that cancels in symmetric situations, a unit or factor that only "
        "matters for one option value, handling of the last/first element, behaviour that depends on call "
        "order, dtype or integer-division slips, a default argument evaluated once, an exception type that "
        "changes, a sort that is not stable, a comparison of floats that should be exact (or the reverse)."
    )
    for pid, p in sorted(props.items()):
        name = pid + suffix
        prev = []
        for m in sorted(glob.glob(os.path.join(ROOT, "seeded", pid + "*", "meta.json"))):
            prev.append(json.load(open(m)).get("summary", "").replace("\n", " ")[:260])
        extra = ""
        extra = EXTRA_NOTES.get(pid, "")
        note = "DIVERSITY NOTE: " + extra + "Previous adversaries already made these changes (do something in a DIFFERENT part of the code or of a different nature): " + " || ".join(
            f"({i + 1}) {t}" for i, t in enumerate(prev)
        )
        body = f"{pid}: {p['title']}\n\nSTATEMENT: {p['statement']}\n\nQUANTIFIED OVER: {p['quantifier']['text']}\n\n"
        text = head + body + "-----\n\n" + note + tricks + "\n\n" + tail
        text = text.replace(TEMPLATE_NAME, name).replace('"property": "C08"', f'"property": "{pid}"')
        os.makedirs(f"/tmp/seedout/{name}", exist_ok=True)
        open(f"/tmp/seedout/{name}.prompt.txt", "w").write(text)
    print("wrote", len(props), "prompts with suffix", suffix)


main()
