"""Hand-written semantic mutants used to measure the sensitivity of each check.

Each entry: (mutant id, property, file under src/pydrex, old text, new text).
`tools/mutate.py` applies one mutant to a scratch copy of /repo/src (never to /repo),
runs the property's quick check against it and expects a VIOLATION.
"""

M = []


def m(mid, prop, file, old, new):
    M.append({"id": mid, "prop": prop, "file": file, "old": old, "new": new})


# C01 ----------------------------------------------------------------------------------
m("c01_no_volume_clip", "C01", "utils.py", ".clip(0, None)\n    fractions /= fractions.sum()", "\n    fractions /= fractions.sum()")
m("c01_no_renormalise", "C01", "utils.py", "    fractions = y[n_grains * 9 + 9 : n_grains * 10 + 9].clip(0, None)\n    fractions /= fractions.sum()", "    fractions = y[n_grains * 9 + 9 : n_grains * 10 + 9].clip(0, None)")
m("c01_nonskew_spin", "C01", "core.py", "PERMUTATION_SYMBOL[q, r, s] * orientation[p, s] * spin_vector[r]", "np.abs(PERMUTATION_SYMBOL[q, r, s]) * orientation[p, s] * spin_vector[r]")
m("c01_append_twice", "C01", "minerals.py", "        self.orientations.append(orientations)\n        self.fractions.append(fractions)", "        self.orientations.append(orientations)\n        self.orientations.append(orientations)\n        self.fractions.append(fractions)")
m("c01_overwrite_prev", "C01", "minerals.py", "        self.orientations.append(orientations)\n", "        self.orientations[-1] = self.orientations[-1] * 1.0000001\n        self.orientations.append(orientations)\n")
m("c01_no_orientation_clip", "C01", "utils.py", ".reshape((n_grains, 3, 3)).clip(-1, 1)", ".reshape((n_grains, 3, 3))")
# C02 ----------------------------------------------------------------------------------
m("c02_crss_E", "C02", "core.py", "return np.array([3, 1, 2, np.inf])", "return np.array([3, 2, 1, np.inf])")
m("c02_exponent", "C02", "core.py", "slip_rates[i_min] = ratio_min * np.abs(ratio_min) ** (deformation_exponent - 1)", "slip_rates[i_min] = ratio_min * np.abs(ratio_min) ** (deformation_exponent)")
m("c02_schmid_factor", "C02", "core.py", "deformation_rate[i, j] = 2 * (", "deformation_rate[i, j] = 1 * (")
m("c02_original_drex", "C02", "core.py", "_USE_ORIGINAL_DREX = False", "_USE_ORIGINAL_DREX = True")
m("c02_yield_factor", "C02", "core.py", "strain_residuals = 0.3 * (mean_energy - strain_energies)", "strain_residuals = 0.5 * (mean_energy - strain_energies)")
m("c02_energy_exponent", "C02", "core.py", "-nucleation_efficiency * dislocation_density**2", "-nucleation_efficiency * dislocation_density")
m("c02_crss_D", "C02", "core.py", "return np.array([1, 1, 3, np.inf])", "return np.array([1, 1.5, 3, np.inf])")
# C03 ----------------------------------------------------------------------------------
m("c03_unweighted_mean", "C03", "core.py", "        mean_energy = np.sum(fractions * strain_energies)\n        # Strain energy residual.", "        mean_energy = np.mean(strain_energies)\n        # Strain energy residual.")
m("c03_no_guard", "C03", "core.py", "    if -1e-15 < denominator < 1e-15:\n        return 0.0\n", "")
m("c03_dead_grain", "C03", "core.py", "fractions_diff = volume_fraction * gbm_mobility * fractions * strain_residuals\n        return orientations_diff, fractions_diff\n    elif regime == DeformationRegime.sliding_dislocation", "fractions_diff = volume_fraction * gbm_mobility * (fractions + 1e-6) * strain_residuals\n        return orientations_diff, fractions_diff\n    elif regime == DeformationRegime.sliding_dislocation")
m("c03_nonlinear_M", "C03", "core.py", "        fractions_diff = volume_fraction * gbm_mobility * fractions * strain_residuals\n        return orientations_diff, fractions_diff\n    elif regime == DeformationRegime.max_viscosity", "        fractions_diff = volume_fraction * gbm_mobility**1.01 * fractions * strain_residuals\n        return orientations_diff, fractions_diff\n    elif regime == DeformationRegime.max_viscosity")
# C04 ----------------------------------------------------------------------------------
m("c04_abs_ratio", "C04", "core.py", "slip_rates[i_int] = ratio_int * np.abs(ratio_int) ** (deformation_exponent - 1)", "slip_rates[i_int] = np.abs(ratio_int) ** (deformation_exponent)")
m("c04_trace_normalise", "C04", "minerals.py", "strain_rate_max = np.abs(la.eigvalsh(strain_rate)).max()", "strain_rate_max = np.abs(strain_rate).max()")
m("c04_index_transpose", "C04", "core.py", "invariants[2] += strain_rate[i, j] * orientation[2, i] * orientation[1, j]", "invariants[2] += strain_rate[i, j] * orientation[2, j] * orientation[1, i] * (1.0 if i != 2 else 1.0000001)")
m("c04_lab_frame_term", "C04", "core.py", "                + slip_rates[3] * orientation[2, i] * orientation[0, j]\n", "                + slip_rates[3] * orientation[2, i] * orientation[0, j]\n                + 1e-3 * (1.0 if (i == 0 and j == 1) else 0.0)\n")
# C05 ----------------------------------------------------------------------------------
m("c05_drop_scaling_f", "C05", "minerals.py", "fractions_diff * strain_rate_max,", "fractions_diff,")
m("c05_drop_scaling_o", "C05", "minerals.py", "orientations_diff.flatten() * strain_rate_max,", "orientations_diff.flatten(),")
m("c05_abs_first_step", "C05", "minerals.py", 'first_step=kwargs.pop("first_step", np.abs(time_end - time_start) * 1e-1),', 'first_step=kwargs.pop("first_step", min(np.abs(time_end - time_start) * 1e-1, 1e-3)),')
# C06 ----------------------------------------------------------------------------------
m("c06_FL", "C06", "minerals.py", "deformation_gradient_diff = velocity_gradient @ deformation_gradient", "deformation_gradient_diff = deformation_gradient @ velocity_gradient")
m("c06_L_at_start", "C06", "minerals.py", "            position = get_position(t)\n            velocity_gradient = get_velocity_gradient(t, position)", "            position = get_position(time_start)\n            velocity_gradient = get_velocity_gradient(time_start, position)")
m("c06_update_all_chain", "C06", "minerals.py", "            deformation_gradient=deformation_gradient,\n            get_velocity_gradient=get_velocity_gradient,", "            deformation_gradient=deformation_gradient if i == 0 else new_deformation_gradient,\n            get_velocity_gradient=get_velocity_gradient,")
m("c06_position_frozen", "C06", "minerals.py", "            position = get_position(t)\n", "            position = get_position(time_end)\n")
# C07 ----------------------------------------------------------------------------------
m("c07_fallthrough", "C07", "core.py", '    elif regime == DeformationRegime.sliding_dislocation:\n        raise ValueError("this deformation mechanism is not yet supported.")', "    elif regime == DeformationRegime.sliding_dislocation:\n        return (np.zeros((n_grains, 3, 3)), np.zeros(n_grains))")
m("c07_append_before", "C07", "minerals.py", "        perform_step(solver)\n        while solver.status", "        self.orientations.append(self.orientations[-1])\n        self.fractions.append(self.fractions[-1])\n        perform_step(solver)\n        self.orientations.pop()\n        self.fractions.pop()\n        while solver.status")
m("c07_viscosity_identity", "C07", "core.py", "    elif regime == DeformationRegime.max_viscosity:\n        # Do absolutely nothing, all derivatives are zero.\n        return (\n            np.zeros((n_grains, 3, 3)),", "    elif regime == DeformationRegime.max_viscosity:\n        # Do absolutely nothing, all derivatives are zero.\n        return (\n            np.repeat(np.eye(3), n_grains).reshape(3, 3, n_grains).transpose(),")
m("c07_bad_fabric_accepted", "C07", "core.py", '        raise ValueError(f"unsupported enstatite fabric: {fabric}")', "        return np.array([np.inf, np.inf, np.inf, 1])")
# C08 ----------------------------------------------------------------------------------
m("c08_first_fraction", "C08", "minerals.py", 'params["phase_assemblage"].index(self.phase)\n                ]', "0\n                ]")
m("c08_position_lookup", "C08", "minerals.py", 'params["phase_assemblage"].index(self.phase)\n                ]', "int(self.phase)\n                ]")
m("c08_shared_cache", "C08", "minerals.py", '                volume_fraction = params["phase_fractions"][\n                    params["phase_assemblage"].index(self.phase)\n                ]', '                volume_fraction = globals().setdefault("_VF_CACHE", {}).setdefault(id(params), params["phase_fractions"][\n                    params["phase_assemblage"].index(self.phase)\n                ])')
# C09 ----------------------------------------------------------------------------------
m("c09_invert_mask", "C09", "utils.py", "mask = fractions < (gbs_threshold / n_grains)", "mask = fractions > (gbs_threshold / n_grains)")
m("c09_floor_chi", "C09", "utils.py", "fractions[mask] = gbs_threshold / n_grains", "fractions[mask] = gbs_threshold")
m("c09_freeze_current", "C09", "utils.py", "    orientations[mask, :, :] = orientations_prev[mask, :, :]\n", "")
m("c09_le_threshold", "C09", "utils.py", "mask = fractions < (gbs_threshold / n_grains)", "mask = fractions <= (gbs_threshold / n_grains)")
m("c09_wrong_reference", "C09", "minerals.py", "                self.orientations[-1],\n                self.n_grains,", "                self.orientations[0],\n                self.n_grains,")
# C10 ----------------------------------------------------------------------------------
m("c10_rotate_A", "C10", "minerals.py", "mineral.orientations[i][n, ...].transpose(),", "mineral.orientations[i][n, ...],")
m("c10_drop_phase_fraction", "C10", "minerals.py", "                    * phase_fractions[phase_assemblage.index(mineral.phase)]\n", "")
m("c10_list_position", "C10", "minerals.py", "phase_tensors[mineral.phase],", "phase_tensors[phase_assemblage.index(mineral.phase)],")
m("c10_fraction_by_ordinal", "C10", "minerals.py", "* phase_fractions[phase_assemblage.index(mineral.phase)]", "* phase_fractions[min(int(mineral.phase), len(phase_fractions) - 1)]")
# C11 ----------------------------------------------------------------------------------
m("c11_vector_swap", "C11", "tensors.py", "    matrix[0, 4] = 0.5 * vector[13]\n    matrix[1, 5] = 0.5 * vector[14]", "    matrix[0, 4] = 0.5 * vector[14]\n    matrix[1, 5] = 0.5 * vector[13]")
m("c11_rotate_index", "C11", "tensors.py", "                                        * rotation[L, d]\n", "                                        * rotation[d, L]\n")
m("c11_hex_coeff", "C11", "tensors.py", "out[8] = (x[0] + x[1]) / 4 - x[5] / 2 / np.sqrt(2) + x[8] / 2", "out[8] = (x[0] + x[1]) / 4 - x[5] / 2 / np.sqrt(2) + x[8] / 4")
m("c11_polar_order", "C11", "tensors.py", "return U @ Vh, U @ (np.diag(S) @ U.transpose())", "return U @ Vh, Vh.transpose() @ (np.diag(S) @ Vh)")
m("c11_invariant_sign", "C11", "tensors.py", "        - tensor[2, 0] * tensor[0, 2],", "        + tensor[2, 0] * tensor[0, 2],")
# C12 ----------------------------------------------------------------------------------
m("c12_worst_perm", "C12", "diagnostics.py", "            if δ < distance:\n                distance = δ\n", "            if δ > distance or i == 0:\n                distance = δ\n")
m("c12_shear_modulus", "C12", "diagnostics.py", "G = (np.trace(stiffness_deviat) - 3 * K) / 10", "G = (np.trace(stiffness_deviat) - 3 * K) / 9")
m("c12_axis_index", "C12", "diagnostics.py", 'out["hexagonal_axis"][m, ...] = permuted_SCCS[:, 2]', 'out["hexagonal_axis"][m, ...] = permuted_SCCS[:, 0]')
m("c12_no_rotation", "C12", "diagnostics.py", "_tensors.rotate(elastic_tensor, permuted_SCCS.transpose())", "_tensors.rotate(elastic_tensor, permuted_SCCS)")
# C13 ----------------------------------------------------------------------------------
m("c13_scatter_columns", "C13", "stats.py", "scatter[1, 0] = np.sum(orientations[:, row, 0] * orientations[:, row, 1])", "scatter[1, 0] = np.sum(orientations[:, 0, row] * orientations[:, 1, row])")
m("c13_eig_order", "C13", "diagnostics.py", "eigvals_descending = la.eigvalsh(scatter)[::-1]", "eigvals_descending = la.eigvalsh(scatter)")
m("c13_right_cauchy", "C13", "diagnostics.py", "deformation_gradient @ deformation_gradient.transpose(),", "deformation_gradient.transpose() @ deformation_gradient,")
m("c13_bingham_first", "C13", "diagnostics.py", "        :, -1\n    ]\n    return mean_vector", "        :, 0\n    ]\n    return mean_vector")
m("c13_fse_angle", "C13", "utils.py", "return np.rad2deg(np.arctan(np.sqrt(strain**2 + 1) + strain))", "return np.rad2deg(np.arctan(np.sqrt(strain**2 + 1) - strain))")
# C14 ----------------------------------------------------------------------------------
m("c14_imap_unordered", "C14", "diagnostics.py", "            for i, out in enumerate(pool.imap(_run, orientation_stack)):\n                m_indices[i] = out\n    else:", "            for i, out in enumerate(pool.imap_unordered(_run, orientation_stack)):\n                m_indices[i] = out\n    else:")
m("c14_norm_factor", "C14", "diagnostics.py", "return (θmax / (2 * len(misorientations_count))) * np.sum(", "return (θmax / (len(misorientations_count))) * np.sum(")
m("c14_triclinic_noabs", "C14", "geometry.py", "                    np.abs(\n                        np.clip(", "                    (\n                        np.clip(")
m("c14_external_pool_skip", "C14", "diagnostics.py", "            for i, out in enumerate(pool.imap(_run, orientation_stack)):\n                m_indices[i] = out\n    return m_indices", "            for i, out in enumerate(pool.imap(_run, orientation_stack[::-1])):\n                m_indices[i] = out\n    return m_indices")
# C15 ----------------------------------------------------------------------------------
m("c15_uniform", "C15", "stats.py", "count_less = np.searchsorted(cumfrac, rng.random(n_samples))", "count_less = rng.integers(0, len(cumfrac), n_samples)")
m("c15_side_right_off", "C15", "stats.py", "count_less = np.searchsorted(cumfrac, rng.random(n_samples))", "count_less = np.clip(np.searchsorted(cumfrac, rng.random(n_samples)) - 1, 0, None)")
m("c15_unpaired", "C15", "stats.py", "out_fractions[i, ...] = frac_ascending[count_less]", "out_fractions[i, ...] = frac[count_less]")
m("c15_shape_check", "C15", "stats.py", "or _orientations.shape[2:] != (3, 3)", "or _orientations.shape[2] != _orientations.shape[3] != 3")
# C16 ----------------------------------------------------------------------------------
m("c16_write_fill", "C16", "io.py", "                    elif t in (int, str) and d == t(f):\n                        row.append(schema[\"missing\"])", "                    elif t in (int, str) and d == t(f):\n                        row.append(d)")
m("c16_no_strip", "C16", "io.py", "    if data.strip() == missingstr:", "    if data == missingstr + ' ':")
m("c16_float_format", "C16", "io.py", "                        else:\n                            row.append(d)\n                    elif t in (int, str)", "                        else:\n                            row.append(f\"{d:.12g}\" if t is float else d)\n                    elif t in (int, str)")
m("c16_validate_delim", "C16", "io.py", '        and schema["delimiter"] not in schema["missing"]\n', "")
m("c16_unquoted_fill", "C16", "io.py", "                fill = _quote_yaml_string(fill)\n", "                pass\n")
# C17 ----------------------------------------------------------------------------------
m("c17_meta_order", "C17", "minerals.py", '            phase, fabric, regime = data[f"meta_{postfix}"]\n            self.fractions', '            fabric, phase, regime = data[f"meta_{postfix}"]\n            self.fractions')
m("c17_float32", "C17", "minerals.py", '"fractions": np.stack(self.fractions),', '"fractions": np.stack(self.fractions).astype(np.float32).astype(np.float64),')
m("c17_postfix_ignored_load", "C17", "minerals.py", '            fractions = list(data[f"fractions_{postfix}"])\n            orientations = list(data[f"orientations_{postfix}"])\n        else:\n            phase, fabric, regime = data["meta"]', '            fractions = list(data[f"fractions_{postfix}"])\n            orientations = list(data[f"orientations_{postfix}"])[::-1]\n        else:\n            phase, fabric, regime = data["meta"]')
m("c17_write_before_check", "C17", "minerals.py", "        if len(self.fractions) != len(self.orientations):\n            raise ValueError(", "        if len(self.fractions) != len(self.orientations):\n            open(_io.resolve_path(filename), 'ab').close()\n            raise ValueError(")
m("c17_zip_mode_w", "C17", "minerals.py", 'archive = ZipFile(filename, mode="a", allowZip64=True)', 'archive = ZipFile(filename, mode="w", allowZip64=True)')
# C18 ----------------------------------------------------------------------------------
m("c18_corner_sign", "C18", "velocity.py", "    grad_v[vertical, horizontal] = -h * v**2\n", "    grad_v[vertical, horizontal] = h * v**2\n")
m("c18_strain_eigL", "C18", "utils.py", "np.linalg.eigvalsh((velocity_gradient + velocity_gradient.transpose()) / 2)", "np.linalg.eigvalsh(velocity_gradient)")
m("c18_pathline_order", "C18", "pathlines.py", "        return path.t[::-1], path.sol", "        return path.t, path.sol")
m("c18_axis_map", "C18", "geometry.py", '        case ("Z", "X"):\n            indices = (2, 0)', '        case ("Z", "X"):\n            indices = (0, 2)')
m("c18_no_boundary", "C18", "pathlines.py", "        # If we are outside the domain, always terminate.\n        return 0", "        # If we are outside the domain, always terminate.\n        return _strain")
m("c18_simple_shear_3x", "C18", "velocity.py", "grad_v[direction, deformation_plane] = 2 * strain_rate", "grad_v[direction, deformation_plane] = 3 * strain_rate")
# C19 ----------------------------------------------------------------------------------
m("c19_default_changed", "C19", "core.py", "    gbs_threshold: float = 0.3\n", "    gbs_threshold: float = 0.4\n")
m("c19_no_sum_check", "C19", "io.py", '    if np.abs(np.sum(_params["phase_fractions"]) - 1.0) > 1e-16:', '    if np.abs(np.sum(_params["phase_fractions"]) - 1.0) > 1e16:')
m("c19_preset_value", "C19", "mock.py", "    gbm_mobility: int = 10\n", "    gbm_mobility = 10\n")
m("c19_log_default", "C19", "io.py", '_output["log_level"] = _output.get("log_level", "WARNING")', '_output["log_level"] = _output.get("log_level", "INFO")')
m("c19_strain_final_default", "C19", "io.py", '_input["strain_final"] = _input.get("strain_final", np.inf)', '_input["strain_final"] = _input.get("strain_final", 10)')
# C20 ----------------------------------------------------------------------------------
m("c20_swap_pole_axes", "C20", "geometry.py", "    yvals = directions[:, axes_map[_ref_axes[1]]]\n    xvals = directions[:, axes_map[_ref_axes[0]]]", "    yvals = directions[:, axes_map[_ref_axes[0]]]\n    xvals = directions[:, axes_map[_ref_axes[1]]]")
m("c20_lambert_radius", "C20", "geometry.py", "prefactor = np.sqrt((1 - zvals) / (x_masked**2 + y_masked**2))", "prefactor = np.sqrt((1 - zvals**2) / (x_masked**2 + y_masked**2))")
m("c20_poles_no_transpose", "C20", "geometry.py", "np.tensordot(orientations.transpose([0, 2, 1]), hkl, axes=(2, 0))", "np.tensordot(orientations, hkl, axes=(2, 0))")
m("c20_density_no_abs", "C20", "stats.py", "        if axial:\n            products = np.abs(products)", "        if axial and i % 7:\n            products = np.abs(products)")
m("c20_to_cartesian", "C20", "geometry.py", "return (r * np.sin(θ) * np.cos(ϕ), r * np.sin(θ) * np.sin(ϕ), r * np.cos(θ))", "return (r * np.sin(θ) * np.sin(ϕ), r * np.sin(θ) * np.cos(ϕ), r * np.cos(θ))")
m("c20_density_no_normalise", "C20", "stats.py", "    totals /= totals.mean()\n", "    totals /= totals.max()\n")
