#!/usr/bin/env python3
"""Confirm an independently seeded change and run the checks against it.

    tools/seed_eval.py <NAME> [--props C03,C08] [--tier quick] [--skip-tests]

<NAME> identifies /tmp/seedout/<NAME>/{patch.diff,demo.py,meta.json} and the worktree
/tmp/wt/<NAME> (left by the sub-agent with the change applied).  Steps:
 1. the patch applies cleanly to /repo's HEAD (git apply --check) and equals the worktree diff
 2. demo.py exits 0 on the original code (/repo/src) and non-zero on the changed code
 3. the full pinned test suite passes in the worktree (changed code)
 4. the registered checks of the given properties are run against the changed code
    (VERIF_REPO_SRC=<worktree>/src, outputs redirected) and their verdicts recorded
The change is kept under /verif/seeded/<NAME>/ only if 1-3 hold.
"""
import argparse
import json
import os
import shutil
import subprocess
import sys
import tempfile

ROOT = os.path.dirname(os.path.dirname(os.path.abspath(__file__)))
PY = "/venv/bin/python"


def sh(cmd, env=None, cwd=None, timeout=3600):
    p = subprocess.run(cmd, shell=isinstance(cmd, str), env=env, cwd=cwd, capture_output=True, text=True, timeout=timeout)
    return p.returncode, p.stdout + p.stderr


def main():
    ap = argparse.ArgumentParser()
    ap.add_argument("name")
    ap.add_argument("--props", default=None)
    ap.add_argument("--tier", default="quick")
    ap.add_argument("--skip-tests", action="store_true")
    ap.add_argument("--seeds", default="1")
    a = ap.parse_args()
    name = a.name
    sdir = f"/tmp/seedout/{name}"
    wt = f"/tmp/wt/{name}"
    meta = json.load(open(f"{sdir}/meta.json"))
    prop = meta.get("property", name[:3])
    props = a.props.split(",") if a.props else [prop]
    report = {"name": name, "property": prop}
    rc, out = sh(["git", "-C", "/repo", "apply", "--check", f"{sdir}/patch.diff"])
    report["patch_applies_to_repo_head"] = rc == 0
    # a later fix: commit in /repo may touch the same lines; the patch is then still a valid
    # change of the commit its worktree was created from
    rcb, base = sh(["git", "-C", wt, "rev-parse", "--short", "HEAD"])
    report["base_commit"] = base.strip()
    rcr, _ = sh(["git", "-C", wt, "apply", "--check", "-R", f"{sdir}/patch.diff"])
    report["patch_is_the_worktree_change"] = rcr == 0
    rc, out = sh(["git", "-C", wt, "diff"])
    report["worktree_diff_equals_patch"] = out.strip() == open(f"{sdir}/patch.diff").read().strip()
    env0 = dict(os.environ, PYTHONPATH="/repo/src")
    env1 = dict(os.environ, PYTHONPATH=f"{wt}/src")
    rc0, o0 = sh([PY, f"{sdir}/demo.py"], env=env0, cwd=sdir, timeout=900)
    rc1, o1 = sh([PY, f"{sdir}/demo.py"], env=env1, cwd=sdir, timeout=900)
    report["demo_exit_original"] = rc0
    report["demo_exit_changed"] = rc1
    report["demo_tail_changed"] = o1[-400:]
    if not a.skip_tests:
        rc, out = sh(f"cd {wt} && PYTHONPATH={wt}/src {PY} -m pytest -q -p no:cacheprovider --timeout=900 -n 6 2>&1 | tail -3", timeout=3000)
        report["tests_summary"] = out.strip().splitlines()[-1] if out.strip() else ""
        report["tests_pass"] = "74 passed" in out and "failed" not in out
    verdicts = {}
    for p in props:
        for seed in a.seeds.split(","):
            tmp = tempfile.mkdtemp(prefix="seedrun_")
            env = dict(os.environ, VERIF_REPO_SRC=f"{wt}/src", VERIF_OUT_DIR=tmp, VERIF_SEED=seed, VERIF_SUT_TIMEOUT="60")
            rc, out = sh([PY, os.path.join(ROOT, "run.py"), p, "--tier", a.tier], env=env, cwd=ROOT, timeout=7200)
            msgs = [l.strip()[:220] for l in out.splitlines() if l.startswith("  ")][:4]
            verdicts[f"{p}@{a.tier}@seed{seed}"] = {"exit": rc, "caught": rc == 1, "messages": msgs, "summary": out.strip().splitlines()[-1] if out.strip() else ""}
            shutil.rmtree(tmp, ignore_errors=True)
    report["checks"] = verdicts
    ok = (report["patch_applies_to_repo_head"] or report["patch_is_the_worktree_change"]) and rc0 == 0 and rc1 != 0 and (a.skip_tests or report.get("tests_pass"))
    report["kept"] = bool(ok)
    print(json.dumps(report, indent=1))
    if ok:
        dst = os.path.join(ROOT, "seeded", name)
        os.makedirs(dst, exist_ok=True)
        shutil.copy(f"{sdir}/patch.diff", dst)
        shutil.copy(f"{sdir}/demo.py", dst)
        old = {}
        if os.path.exists(os.path.join(dst, "meta.json")):
            old = json.load(open(os.path.join(dst, "meta.json")))
        merged = dict(meta)
        merged["breaks_property"] = prop
        merged["confirmed_by_me"] = {k: v for k, v in report.items() if k != "checks"}
        allchecks = dict(old.get("checks_run", {}))
        allchecks.update(verdicts)
        merged["checks_run"] = allchecks
        merged["how_run"] = "checks run with VERIF_REPO_SRC=<scratch worktree with the patch>/src (equivalent to git -C /repo apply; /repo itself untouched)"
        json.dump(merged, open(os.path.join(dst, "meta.json"), "w"), indent=1)


main()
