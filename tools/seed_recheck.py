#!/venv/bin/python
"""Re-run the current quick checks against every kept seeded change (regression test of the
checks themselves).  For each /verif/seeded/<NAME>/patch.diff a scratch copy of the sources
of the newest /repo commit the patch applies to is made under a temporary directory, the
patch is applied there, and the property's quick tier is run with VERIF_REPO_SRC pointing
at it.  Nothing under /repo is touched; scratch copies are removed immediately.

    tools/seed_recheck.py [--jobs 4] [--seed 1] [--only NAME,NAME]
Writes /verif/seeded/RECHECK.md and .work/seed_recheck.jsonl.
"""
import argparse, glob, json, os, shutil, subprocess, sys, tempfile, time
from concurrent.futures import ThreadPoolExecutor

ROOT = os.path.dirname(os.path.dirname(os.path.abspath(__file__)))


def sh(cmd, **kw):
    p = subprocess.run(cmd, stdout=subprocess.PIPE, stderr=subprocess.STDOUT, **kw)
    return p.returncode, p.stdout.decode(errors="replace")


def commits():
    rc, out = sh(["git", "-C", "/repo", "rev-list", "--max-count=40", "HEAD"])
    return out.split()


def one(name, seed, revs):
    sdir = os.path.join(ROOT, "seeded", name)
    meta = json.load(open(os.path.join(sdir, "meta.json")))
    prop = meta.get("breaks_property") or meta.get("property") or name[:3]
    tmp = tempfile.mkdtemp(prefix="recheck_")
    t0 = time.time()
    try:
        used = None
        for rev in revs:
            shutil.rmtree(os.path.join(tmp, "src"), ignore_errors=True)
            rc, _ = sh(f"git -C /repo archive {rev} src | tar -x -C {tmp}", shell=True)
            rc, out = sh(["patch", "-p1", "-s", "-f", "-d", tmp, "-i", os.path.join(sdir, "patch.diff")])
            if rc == 0:
                used = rev[:7]
                break
        if used is None:
            return dict(name=name, prop=prop, status="patch-does-not-apply")
        env = dict(os.environ, VERIF_REPO_SRC=os.path.join(tmp, "src"), VERIF_OUT_DIR=os.path.join(tmp, "out"), VERIF_SEED=str(seed), VERIF_SUT_TIMEOUT="60", PYTHONDONTWRITEBYTECODE="1")
        rc, out = sh([sys.executable, os.path.join(ROOT, "run.py"), prop, "--tier", "quick"], env=env, cwd=ROOT, timeout=7200)
        msgs = [l.strip()[:160] for l in out.splitlines() if l.startswith("  ")][:2]
        return dict(name=name, prop=prop, base=used, exit=rc, status="caught" if rc == 1 else ("MISSED" if rc == 0 else "harness-error"), msgs=msgs, wall=round(time.time() - t0, 1))
    finally:
        shutil.rmtree(tmp, ignore_errors=True)


def main():
    ap = argparse.ArgumentParser()
    ap.add_argument("--jobs", type=int, default=4)
    ap.add_argument("--seed", type=int, default=1)
    ap.add_argument("--only", default="")
    a = ap.parse_args()
    names = sorted(os.path.basename(os.path.dirname(p)) for p in glob.glob(os.path.join(ROOT, "seeded", "*", "meta.json")))
    if a.only:
        names = [n for n in names if n in a.only.split(",")]
    revs = commits()
    rows = []
    os.makedirs(os.path.join(ROOT, ".work"), exist_ok=True)
    with ThreadPoolExecutor(a.jobs) as ex, open(os.path.join(ROOT, ".work", "seed_recheck.jsonl"), "a") as log:
        for r in ex.map(lambda n: one(n, a.seed, revs), names):
            rows.append(r)
            log.write(json.dumps(r) + "\n"); log.flush()
            print(f"{r['status']:14s} {r['name']:6s} {r.get('wall', '')} {r.get('msgs', '')}", flush=True)
    if not a.only:
        n_c = sum(r["status"] == "caught" for r in rows)
        with open(os.path.join(ROOT, "seeded", "RECHECK.md"), "w") as f:
            f.write(f"# Re-check of all kept seeded changes against the final checks\n\nQuick tier, VERIF_SEED={a.seed}, each change applied to a scratch copy of the newest /repo commit it applies to (`tools/seed_recheck.py`). {n_c} of {len(rows)} caught.\n\n| change | property | base commit | verdict | first message |\n|---|---|---|---|---|\n")
            for r in rows:
                f.write(f"| {r['name']} | {r['prop']} | {r.get('base', '-')} | {r['status']} | {(r.get('msgs') or [''])[0].replace('|', '/')} |\n")
    print(sum(r["status"] == "caught" for r in rows), "of", len(rows), "caught")


main()
