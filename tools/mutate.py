#!/venv/bin/python
"""Sensitivity runner: apply each hand-written mutant to a scratch copy of /repo/src and
run the property's check against it (VERIF_REPO_SRC), expecting a VIOLATION.

    tools/mutate.py [--only id1,id2 | --prop C03] [--tier quick] [--jobs 4] [--seed 1]

Results are appended to .work/mutation_results.jsonl (one line per mutant).
Nothing under /repo is touched; scratch copies live under a mkdtemp directory and are
removed immediately after each run.
"""
import argparse
import json
import os
import shutil
import subprocess
import sys
import tempfile
import time
from concurrent.futures import ThreadPoolExecutor

ROOT = os.path.dirname(os.path.dirname(os.path.abspath(__file__)))
sys.path.insert(0, ROOT)
from tools.mutants import M  # noqa: E402


def run_one(mut, tier, seed, shards):
    tmp = tempfile.mkdtemp(prefix="mut_")
    t0 = time.time()
    try:
        src = os.path.join(tmp, "src")
        shutil.copytree("/repo/src", src, ignore=shutil.ignore_patterns("__pycache__", "*.egg-info"))
        path = os.path.join(src, "pydrex", mut["file"])
        text = open(path).read()
        if text.count(mut["old"]) != 1:
            return dict(id=mut["id"], prop=mut["prop"], status="not-applicable", detail=f"pattern occurs {text.count(mut['old'])} times")
        open(path, "w").write(text.replace(mut["old"], mut["new"]))
        # does it still import?
        env = dict(os.environ, VERIF_REPO_SRC=src, VERIF_SEED=str(seed), PYTHONDONTWRITEBYTECODE="1", VERIF_OUT_DIR=os.path.join(tmp, "out"))
        rdir = os.path.join(tmp, "replays")
        cmd = [sys.executable, os.path.join(ROOT, "run.py"), mut["prop"], "--tier", tier]
        if shards:
            cmd += ["--shards", str(shards)]
        p = subprocess.run(cmd, env=env, capture_output=True, text=True, cwd=ROOT, timeout=3600)
        out = p.stdout + p.stderr
        viol = [l for l in out.splitlines() if l.startswith("VIOLATION")]
        msgs = [l.strip() for l in out.splitlines() if l.startswith("  ")][:3]
        status = {0: "MISSED", 1: "caught", 2: "harness-error"}.get(p.returncode, f"rc{p.returncode}")
        return dict(id=mut["id"], prop=mut["prop"], status=status, n_violations=len(viol), msgs=[m[:200] for m in msgs], wall=round(time.time() - t0, 1), tail=out[-600:] if status != "caught" else "")
    finally:
        shutil.rmtree(tmp, ignore_errors=True)


def main():
    ap = argparse.ArgumentParser()
    ap.add_argument("--only")
    ap.add_argument("--prop")
    ap.add_argument("--tier", default="quick")
    ap.add_argument("--jobs", type=int, default=3)
    ap.add_argument("--seed", type=int, default=1)
    ap.add_argument("--shards", type=int, default=0)
    a = ap.parse_args()
    muts = M
    if a.only:
        ids = set(a.only.split(","))
        muts = [m for m in M if m["id"] in ids]
    if a.prop:
        props = set(a.prop.upper().split(","))
        muts = [m for m in muts if m["prop"] in props]
    os.makedirs(os.path.join(ROOT, ".work"), exist_ok=True)
    # keep replay files of mutants out of the committed tree
    out_path = os.path.join(ROOT, ".work", "mutation_results.jsonl")
    with ThreadPoolExecutor(a.jobs) as ex:
        for res in ex.map(lambda m: run_one(m, a.tier, a.seed, a.shards), muts):
            res["tier"] = a.tier
            res["seed"] = a.seed
            print(f"{res['status']:14s} {res['prop']} {res['id']:28s} {res.get('wall', '')}s {res.get('msgs', [''])[:1]}", flush=True)
            if res["status"] not in ("caught",):
                print("    " + res.get("detail", res.get("tail", "")).replace("\n", "\n    ")[-500:])
            with open(out_path, "a") as f:
                f.write(json.dumps(res) + "\n")


if __name__ == "__main__":
    main()
