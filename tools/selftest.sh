#!/bin/bash
# Self-test of the harness protocol (exit codes, VIOLATION/KNOWN-FINDING lines, shrinking, replay).
cd "$(dirname "$0")/.."
tmp=$(mktemp -d)
trap 'rm -rf "$tmp"' EXIT
export VERIF_OUT_DIR=$tmp
fail=0
run() { SELFTEST_MODE=$1 /venv/bin/python run.py C99 --tier quick > $tmp/out.txt 2>&1; echo $?; }

rc=$(run ok); [ "$rc" = 0 ] && ! grep -q VIOLATION $tmp/out.txt && echo "ok   : healthy oracle -> exit 0, no VIOLATION" || { echo "FAIL : healthy"; fail=1; }

rc=$(run fail); n=$(grep -c "^VIOLATION property=C99 replay=" $tmp/out.txt)
[ "$rc" = 1 ] && [ "$n" = 1 ] && echo "ok   : failing oracle -> exit 1, one VIOLATION line" || { echo "FAIL : failing rc=$rc n=$n"; fail=1; }
rp=$(grep "^VIOLATION" $tmp/out.txt | sed 's/.*replay=//')
v=$(/venv/bin/python -c "import json;print(json.load(open('$rp'))['case']['v'])")
[ "$v" = 777 ] && echo "ok   : counterexample shrunk to the boundary (v=777)" || { echo "FAIL : shrunk to v=$v"; fail=1; }
SELFTEST_MODE=fail /venv/bin/python run.py C99 --replay $rp > $tmp/r.txt 2>&1; [ $? = 1 ] && grep -q VIOLATION $tmp/r.txt && echo "ok   : replay of the saved case fails again (exit 1)" || { echo "FAIL : replay"; fail=1; }
SELFTEST_MODE=ok /venv/bin/python run.py C99 --replay $rp > $tmp/r.txt 2>&1; [ $? = 0 ] && echo "ok   : replay on healthy code passes (exit 0)" || { echo "FAIL : replay healthy"; fail=1; }

rc=$(run harness_error); [ "$rc" = 2 ] && ! grep -q "^VIOLATION" $tmp/out.txt && echo "ok   : oracle bug -> exit 2, no VIOLATION" || { echo "FAIL : harness error rc=$rc"; fail=1; }

rc=$(run abort); n=$(grep -c "^VIOLATION property=C99 replay=" $tmp/out.txt)
[ "$rc" = 1 ] && [ "$n" -ge 1 ] && echo "ok   : input on which the code kills the interpreter (shard dies, replay dies too) -> VIOLATION with that input" || { echo "FAIL : abort rc=$rc n=$n"; fail=1; }
rc=$(run abort_once); [ "$rc" = 2 ] && ! grep -q "^VIOLATION" $tmp/out.txt && echo "ok   : shard death that does not reproduce on replay -> exit 2, no VIOLATION" || { echo "FAIL : abort_once rc=$rc"; fail=1; }

# known-finding protocol: temporary findings file with a witness for kind c
mkdir -p $tmp/known
cat > $tmp/known/w.json <<J
{"property": "C99", "oracle": "value", "class": "c", "message": "", "case": {"v": 42, "kind": "c"}}
J
cp KNOWN_FINDINGS.txt $tmp/KF.bak
echo "known: property=C99 key=value:c witness=$tmp/known/w.json selftest finding" >> KNOWN_FINDINGS.txt
SELFTEST_MODE=fail_known /venv/bin/python run.py C99 --tier quick > $tmp/out.txt 2>&1; rc=$?
k=$(grep -c "^KNOWN-FINDING: property=C99" $tmp/out.txt); n=$(grep -c "^VIOLATION" $tmp/out.txt)
[ "$rc" = 1 ] && [ "$k" = 1 ] && [ "$n" = 1 ] && echo "ok   : listed finding -> KNOWN-FINDING line; the other (unlisted) violation is still reported" || { echo "FAIL : known rc=$rc k=$k n=$n"; fail=1; }
SELFTEST_MODE=ok /venv/bin/python run.py C99 --tier quick > $tmp/out.txt 2>&1; rc=$?
k=$(grep -c "^KNOWN-FINDING" $tmp/out.txt)
[ "$rc" = 0 ] && [ "$k" = 0 ] && echo "ok   : witness no longer fails -> no KNOWN-FINDING line, class searched again" || { echo "FAIL : lifted rc=$rc k=$k"; fail=1; }
cp $tmp/KF.bak KNOWN_FINDINGS.txt
exit $fail
