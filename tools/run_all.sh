#!/bin/bash
# Run every registered quick (or thorough) check on the current tree; print one line each.
# usage: tools/run_all.sh [quick|thorough] [seed]
tier=${1:-quick}; seed=${2:-1}
cd "$(dirname "$0")/.."
for i in $(seq -w 1 20); do
  id=C$i
  out=$(VERIF_SEED=$seed /venv/bin/python run.py $id --tier $tier 2>&1); rc=$?
  echo "rc=$rc $(echo "$out" | grep "^\[$id\]" | tail -1)"
  if [ $rc -ne 0 ]; then echo "$out" | grep -v KNOWN-FINDING | tail -8; fi
done
