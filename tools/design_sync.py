#!/usr/bin/env python3
"""Rewrite sections 11 and 12 of DESIGN.md from SENSITIVITY data and seeded/*/meta.json."""
import glob, json, os, re, sys
ROOT = os.path.dirname(os.path.dirname(os.path.abspath(__file__)))
sys.path.insert(0, ROOT)
from tools.mutants import M
from tools.sens_report import EQUIVALENT  # noqa

STRENGTHENED = {
    "C01": "added strain-free velocity gradients (family `spin`, also as the constant part of time-dependent histories)",
    "C01b": "initial arrays are now also handed over Fortran-ordered, as component-first views and as strided views (`hist.relayout`)",
    "C05": "the ends of the documented rate range (1e-16..1e-15 and 1e2..1e3) are over-sampled for both runs",
    "C06": "added strain-free velocity gradients (pure spin) to every history generator",
    "C09": "`params['number_of_grains']` now deliberately differs from the mineral's own grain count for even grain counts",
    "C14": "the single-orientation limit is evaluated in 7 generated frames x 2 set sizes per case (float32 rounding differs per frame)",
    "C16": "new oracle `roundtrip_missing_rows` (numeric tables, everyday delimiters incl. tab, empty/short markers, a row in which every cell is missing); everyday delimiters and the empty marker over-sampled elsewhere",
    "C17": "half of the postfixes come from a pool of names that are prefixes / suffixes / underscore-delimited tails of one another",
    "C18": "points on the coordinate axes (ridge axis and surface of the corner flow) are planted; gradient errors are scaled by the natural magnitude U/r so that an identically vanishing closed form is handled",
    "C03c": "orientations and frames rotated by multiples of 90 degrees built from Euler angles (entries ~6e-17 instead of exact zeros; `gen._euler90`), optional re-expression of every case in a rotated frame, and the exhaustive oracle `degenerate_grid` (24 aligned grains x 64 such frames x 18 axis-aligned flows x 3 scales per generated fabric/parameter set)",
    "C07c": "new failure kind `bad_phase_unlisted`: a mineral with an invalid phase ordinal that the (valid) assemblage does not list",
    "C10c": "new oracle `stiffness_mutation_sequence`: one StiffnessTensors instance is reused for several averages with its attributes reassigned in between (the documented way to set custom stiffnesses), and the default instance is checked afterwards",
    "C14c": "new exhaustive oracle `axis_aligned_pairs_exhaustive`: all 300 two-grain sets of axis-aligned orientations (misorientations exactly 0/90/120/180 degrees, on bin edges and on the end of the angle range) in several frames, triclinic and monoclinic",
    "C14b": "the uniform-texture limit is now compared with the independent correct M-index of the same texture (M <= M_ref + 0.02) instead of a loose multiple of it",
    "C05d": "steady histories now hand the solver one and the same array object from every callback call (`lambda t, x: L`, the commonest user callable) and a fixed position likewise; every array handed out by a callback, the parameter dictionary, the starting deformation gradient and the mineral list are audited for in-place modification after every update (`hist.update`, `hist.update_bulk`)",
    "C09d": "the history oracle now drives every accepted regime (min/max viscosity, matrix diffusion as well as the dislocation regimes), set on the mineral or switched per update through the `get_regime` callback; sub-threshold grains at the start of such an update must still be floored",
    "C13d": "new deformation-gradient families `inf` (R.V.diag(1+10^u d).V^T, u in [-10,-2]) and `tinyshear`, simple shear down to 1e-9; tolerances are now the measured conditioning of the decomposition (1e-12 S0 for the stretch, 1e-13/separation for the axis, calibrated on 200000 random gradients) instead of a flat 1e-9 with small strains skipped",
    "C15d": "new oracle `generated_shapes`: shape pairs come from a grammar (ranks 0..5 / 0..3, dimensions biased towards 3 so that snapshot and grain counts collide with the trailing 3x3, fractions optionally tied to the leading dimensions of the orientations) with the consistency rule as oracle in both directions (consistent accepted with the right output shapes, everything else ValueError)",
    "C17d": "new fault `snapshot_size`: any snapshot index (first or later) x fractions / orientations / both / orientations without the grain axis x sizes 1 (broadcastable), n-1, n+1, 2n, 0 - this also exposed a genuine defect in `Mineral.save` (fix: 9de32db)",
    "C01e": "one mineral in six now starts from a texture written as 0/+-1 direction-cosine matrices and handed over as an integer-typed array (`hist.mineral_spec`, layout `int`); steady velocity gradients with integral entries are likewise handed over with integer dtype",
    "C07e": "the exhaustive ordinal grid now runs over phase ordinals -2..3 and fabric ordinals -7..7 (negative ordinals wrap around as array indices), and the history-level `bad_fabric` failure draws from mismatched, negative and too-large ordinals",
    "C08e": "minerals now also reach the update restored from an NPZ checkpoint (before the first or after the first update; enumeration fields come back as numpy integers) or with plain-integer phase/fabric/regime ordinals, and the restored run must equal the in-memory run",
    "C11e": "one case in four of `tensor_maps` and `rotation_law` holds whole numbers and is handed over with integer dtype (Voigt matrix and 4th-order tensor alike); C10, C12 and C13 got the same variant (whole-GPa stiffness tables, whole-number shears)",
    "C14e": "new oracle `permutation_large`: 1000..2000 grains (sizes around 2^19, 1e6 and 2^20 pairs planted) with a texture that is inhomogeneous along the grain list (random part followed by a tight cluster), reversed and shuffled; the harness no longer spends the evaluation of shards 2..N on Hypothesis' all-minimal first example, which is the same in every shard",
    "C01f": "new oracle `history_valid_continued` (a run continued after a very large strain: starting deformation gradient with principal stretches up to 1e8, dislocation regimes, T >= 1); the general history generator also draws such gradients now",
    "C03f": "new volume family `vertex` (one grain holds all the volume); volume vectors whose entries are whole numbers reach `core.derivatives` as the integer arrays such literals are",
    "C05f": "the harness records the case in flight; when a shard process is killed by a signal the parent replays that case in a fresh process, and a second death by signal is reported as a VIOLATION with that input (anything else stays exit 2) - `tools/selftest.sh` covers both outcomes",
    "C07f": "`params['number_of_grains']` is now smaller than the mineral's grain count for n = 2 mod 4 (1: a dictionary made for a coarser aggregate), larger for n = 0 mod 4, equal for odd n",
    "C08f": "`order_independence` additionally hands [olivine, enstatite, identically built olivine twin] to one `update_all` call: both twins must be updated at every step and stay bit-identical, and the others must not notice",
    "C15f": "new oracle `zero_volume_many_draws`: 4 snapshots x 1e6 samples per evaluation from textures with zero-volume grains (6.4e7 draws per quick run), with exact zero-draw, membership and per-grain proportion checks",
    "C17f": "new oracle `large_entries`: minerals of 2000..9000 grains with enough snapshots for 12..40 MiB archive entries, saved under a postfix next to a small mineral and as a whole file, loaded back through both loaders",
    "C20f": "conversion tolerances now follow the measured accuracy of the conversion pair (3.8e-16 |v| over 2e5 points down to 1e-17 rad from either pole, |v| in 1e-150..1e150): round trip 1e-13 |v|, colatitude 1e-14 rad against atan2(hypot(x,y), z)",
    "C15g": "one stack in six is made of simplex vertices written with integers ([[0, 0, 1], ...]); the grain holding all the volume must be the only one drawn; volumes are compared by value",
    "C17g": "the postfix pool now contains names that differ only in characters outside [A-Za-z0-9_] or in case (a-b/ab/a_b, 1-/-1/1, A/a, ...)",
    "C20g": "one density case in six has 3000..40000 data on a coarse grid and runs all five kernels on the same data; the known-finding class `zero_grid_mean` is only assigned when the raw totals are finite with a (numerically) zero mean",
    "C20": "new differential part of `point_density`: raw estimates are rebuilt from the documented counting grid with pydrex's kernel functions, normalised, clipped and compared (1e-9)",
}

def seeded_table():
    rows = ["| change | property | what it changes | needs | first verdict | final verdict | strengthening |", "|---|---|---|---|---|---|---|"]
    for d in sorted(glob.glob(os.path.join(ROOT, "seeded", "*", "meta.json"))):
        m = json.load(open(d)); name = os.path.basename(os.path.dirname(d))
        checks = m.get("checks_run", {})
        hist = m.get("history", [])
        first = m.get("first_verdict")
        final = "caught" if any(v["caught"] for v in checks.values()) else "MISSED"
        allc = all(v["caught"] for v in checks.values()) if checks else False
        rows.append(f"| {name} | {m.get('breaks_property','')} | {m.get('summary','').replace('|','/').replace(chr(10),' ')[:150]} | {m.get('needs','').replace('|','/').replace(chr(10),' ')[:120]} | {first or ('caught' if allc else 'see meta.json')} | {final} | {STRENGTHENED.get(name, '-') if (first or '').startswith('missed') or name in ('C14b', 'C05f', 'C17g') else '-'} |")
    return "\n".join(rows)

def round_stats():
    import collections
    r = collections.OrderedDict()
    for d in sorted(glob.glob(os.path.join(ROOT, "seeded", "*", "meta.json"))):
        name = os.path.basename(os.path.dirname(d)); m = json.load(open(d))
        suf = name[3:] or "a"
        fv = m.get("first_verdict") or ""
        missed = fv.startswith("missed") or (not fv and not all(v["caught"] for v in m.get("checks_run", {}).values()))
        a = r.setdefault(suf, [0, 0]); a[0] += 1; a[1] += bool(missed)
    return ", ".join(f"round {i + 1}: {v[1]} of {v[0]}" for i, (k, v) in enumerate(sorted(r.items())))


def main():
    p = os.path.join(ROOT, "DESIGN.md"); s = open(p).read()
    a = s.index("## 12. Independently seeded changes"); b = s.index("## 13. Measured cost")
    n_total = len(glob.glob(os.path.join(ROOT, "seeded", "*", "meta.json")))
    text = f"""## 12. Independently seeded changes

Fresh sub-agents were given only the text of one property (for the second round also a
one-line note saying which part of the code the first change had touched, so that the two
differ; for C14 and C18 which parts of the statement the code base already violates) and a
scratch git worktree of /repo under /tmp. Each returned a patch, a demonstration program
and a description. I confirmed every one myself before keeping it: the patch applies to
/repo HEAD, the demonstration exits 0 on the original and non-zero on the changed code, and
the full pinned suite still passes on the changed code (`tools/seed_eval.py`). The checks
were then run against the changed code (`VERIF_REPO_SRC=<worktree>/src`, which has the
same effect as `git -C /repo apply` without disturbing concurrent runs that read /repo).
{n_total} changes are kept under `/verif/seeded/` (README.md there lists all verdicts).

A change that the quick tier missed at first was used to strengthen the generator or the
oracle of that property - never by special-casing the change - and then re-evaluated at
several seeds. Six rounds of 20 changes (one per property and round; later rounds were told
what the earlier ones had done and which generic tricks to avoid) and a seventh half round
(10 properties, 8 valid changes; the two agents whose change broke an existing test were
discarded) were first missed as
follows: {round_stats()}. The rate did not fall to zero: every round of fresh adversaries
still found inputs just outside what the generators covered at that time (argument aliasing
and in-place writes, integer dtypes, magnitudes far from 1, sizes at the top of the stated
range, numpy-integer enumeration fields after a checkpoint, negative ordinals, regimes other
than the default, shapes that coincide with 3, interpreter aborts inside numba). After the
strengthening all {n_total} are caught by the quick tier at three seeds, but the honest
reading is that another round would again find a few that are not; the generators now
cover the classes listed above for every property where they apply, not only where the
miss occurred (section 8, "The same values in every form a user would type them").

{seeded_table()}

"""
    s = s[:a] + text + s[b:]
    open(p, "w").write(s)
    print("DESIGN.md section 12 rewritten with", n_total, "changes")

main()
