#!/bin/bash
# usage: tools/run_thorough_seed.sh <seed> C01 C02 ...
cd "$(dirname "$0")/.."
seed=$1; shift
for id in "$@"; do
  t0=$(date +%s)
  out=$(VERIF_SEED=$seed /venv/bin/python run.py $id --tier thorough 2>&1); rc=$?
  t1=$(date +%s)
  echo "rc=$rc wall=$((t1-t0))s $(echo "$out" | grep "^\[$id\]" | tail -1)"
  if [ $rc -ne 0 ]; then echo "$out" | grep -v KNOWN-FINDING | tail -12; fi
done
