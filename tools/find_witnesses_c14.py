#!/venv/bin/python
"""One-off helper: find a failing witness for every (oracle, lattice system) of C14 on the
current tree and write them to known/ (used when KNOWN_FINDINGS.txt was first written)."""
import json, os, sys
ROOT = os.path.dirname(os.path.dirname(os.path.abspath(__file__)))
sys.path.insert(0, "/repo/src"); sys.path.insert(0, ROOT)
import warnings; warnings.simplefilter("ignore")
import logging
from pydrex import logger as _l; _l.CONSOLE_LOGGER.setLevel(logging.CRITICAL + 10)
from checks import c14
from vlib import harness

oracles = {o.name: o for o in c14.ORACLES}
Qg = {"k": "q", "q": [0.3, -0.5, 0.2, 0.7]}
out = []
for sysname in c14.SYSTEMS:
    cands = {
        "range_permutation": [dict(sys=sysname, tex={"fam": "random", "n": n, "seed": s}, Q=Qg, perm=1, ops=[0]) for n in (2, 3, 5, 20) for s in range(12)],
        "frame_rotation": [dict(sys=sysname, tex={"fam": "random", "n": n, "seed": s}, Q=Qg, perm=1, ops=[0]) for n in (20, 40) for s in range(3)],
        "symmetry_relabel": [dict(sys=sysname, tex={"fam": "random", "n": n, "seed": s}, Q=Qg, perm=1, ops=[0, -1, 1, 2]) for n in (20, 40) for s in range(3)],
        "uniform_and_single": [dict(sys=sysname, n=n, seed=s, base={"k": "ax", "i": 0}) for n in (160, 120, 60) for s in range(3)],
        "uniform_and_single_large": [dict(sys=sysname, n=n, seed=s, base={"k": "ax", "i": 0}) for n in (400,) for s in range(2)],
        "density_integral": [dict(sys=sysname, bins=180)],
        "batched_equals_single": [dict(sys=sysname, n=n, tex=[{"fam": "random", "n": 24, "seed": s}, {"fam": "random", "n": 24, "seed": s + 1}], ncpus=2, pool="internal") for n in (2, 3, 12) for s in range(6)],
    }
    for oname, cases in cands.items():
        for case in cases:
            res = harness.evaluate(oracles[oname], case)
            if res[0] == "fail":
                fn = f"known/C14-{oname}-{sysname}.json"
                with open(os.path.join(ROOT, fn), "w") as f:
                    json.dump({"property": "C14", "oracle": oname, "class": sysname, "message": res[1], "case": case}, f, indent=1)
                out.append((oname, sysname, fn, res[1]))
                print("FAIL", oname, sysname, res[1][:100], flush=True)
                break
        else:
            print("ok  ", oname, sysname, flush=True)
with open(os.path.join(ROOT, ".work", "c14_known.json"), "w") as f:
    json.dump(out, f, indent=1)
