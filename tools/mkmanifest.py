#!/usr/bin/env python3
"""Regenerate /verif/MANIFEST.json from the table below (keeps it valid at all times)."""
import json, os, sys
ROOT = os.path.dirname(os.path.dirname(os.path.abspath(__file__)))
sys.path.insert(0, ROOT)
from tools.manifest_table import CHECKS, NOT_APPLICABLE  # noqa: E402

def main():
    checks = []
    for pid, d in sorted(CHECKS.items()):
        checks.append({
            "property_id": pid,
            "quick_cmd": f"/venv/bin/python run.py {pid} --tier quick",
            "thorough_cmd": f"/venv/bin/python run.py {pid} --tier thorough",
            "evidence_file": f"/verif/evidence/{pid}.json",
            "replay_cmd_template": f"/venv/bin/python run.py {pid} --replay {{path}}",
            "engine": "hypothesis-oracles",
            "level_claimed": {"category": "exploration", "text": d["text"], "design_ref": f"DESIGN.md section 3, {pid}"},
            "level_note": d["note"],
            "technique": d["technique"],
        })
    man = {
        "version": 1,
        "setup_cmd": "/venv/bin/python tools/setup.py",
        "hooks": {
            "guard": "PYDREX_VERIF",
            "enable": "no source hooks are needed: checks import /repo/src directly (PYTHONPATH) and observe public functions; run.py sets PYDREX_VERIF=1 for uniformity",
            "baseline_off_cmd": "cd /repo && /venv/bin/python -m pytest -ra -q -p no:cacheprovider --timeout=900 --continue-on-collection-errors",
            "source_commits": [],
            "add_only": True,
        },
        "engines": [{
            "name": "hypothesis-oracles",
            "path": "/verif/run.py",
            "serves_properties": sorted(CHECKS),
            "kind_free_text": "property-based testing: Hypothesis 6.168 strategies (seeded from VERIF_SEED) drive named oracles (reference models, round trips, metamorphic relations, stateful histories); failures are shrunk and written as JSON replay files",
        }],
        "checks": checks,
        "notes": "All checks: `run.py <ID> --tier quick|thorough`; exit 0 held / 1 VIOLATION / 2 harness error. Known findings in /verif/KNOWN_FINDINGS.txt (witnesses under /verif/known). A generated input on which the code under test kills the interpreter (numba/LAPACK fatal error, segmentation fault) is replayed in a fresh process and reported as a VIOLATION with that input only if it dies again; time limits are CPU-time based and never a verdict. Sensitivity: SENSITIVITY.md (hand-written mutants), seeded/README.md and seeded/RECHECK.md (120 independently seeded changes).",
        "not_applicable": [{"property_id": k, "reason": v} for k, v in sorted(NOT_APPLICABLE.items())],
    }
    with open(os.path.join(ROOT, "MANIFEST.json"), "w") as f:
        json.dump(man, f, indent=1)
    print("wrote MANIFEST.json with", len(checks), "checks,", len(NOT_APPLICABLE), "not_applicable")

main()
