#!/usr/bin/env python3
"""Render seeded/README.md from seeded/*/meta.json."""
import glob, json, os
ROOT = os.path.dirname(os.path.dirname(os.path.abspath(__file__)))
rows = []
for d in sorted(glob.glob(os.path.join(ROOT, "seeded", "*", "meta.json"))):
    m = json.load(open(d))
    name = os.path.basename(os.path.dirname(d))
    checks = m.get("checks_run", {})
    verdict = []
    for k, v in sorted(checks.items()):
        verdict.append(f"{k}: {'caught' if v['caught'] else 'missed'}")
    first = next((v["messages"][0] for v in checks.values() if v.get("messages")), "")
    rows.append((name, m.get("breaks_property", ""), m.get("summary", "").replace("\n", " ")[:260], m.get("needs", "").replace("\n", " ")[:260], "; ".join(verdict), first[:200].replace("|", "\\|")))
lines = [
    "# Independently seeded changes",
    "",
    "Each directory holds `patch.diff` (applies to /repo HEAD with `git apply`), the author's `demo.py`",
    "(exit 0 on the original code, non-zero on the changed code) and `meta.json` (author's description,",
    "my confirmation: patch applies, demo verdicts, full pinned suite result with the change, and the",
    "verdict of the registered checks run against the changed code). The authors were fresh sub-agents that",
    "saw only the property text and a scratch worktree (for C14 and C18 they were additionally told which",
    "parts of the property the code base already violates, so that the change targets behaviour that holds).",
    "Checks were run with `VERIF_REPO_SRC=<worktree>/src` (same effect as `git -C /repo apply`, without",
    "touching /repo while other runs were using it).",
    "",
    "`missed` entries at an early seed followed by `caught` entries document checks that were strengthened",
    "after the change was first evaluated (see DESIGN.md section 12).",
    "",
    "| change | property | what was changed | needs | verdicts (property@tier@seed) | first message |",
    "|---|---|---|---|---|---|",
]
for r in rows:
    lines.append("| " + " | ".join(x.replace("|", "\\|") if i in (2, 3) else x for i, x in enumerate(r)) + " |")
open(os.path.join(ROOT, "seeded", "README.md"), "w").write("\n".join(lines) + "\n")
print(len(rows), "changes")
