#!/venv/bin/python
"""Offline setup: make sure hypothesis is importable by /venv/bin/python."""
import os, subprocess, sys
ROOT = os.path.dirname(os.path.dirname(os.path.abspath(__file__)))
try:
    import hypothesis  # noqa: F401
    print("hypothesis", hypothesis.__version__, "already importable")
except ImportError:
    deps = os.path.join(ROOT, ".deps")
    os.makedirs(deps, exist_ok=True)
    subprocess.check_call([sys.executable, "-m", "pip", "install", "--no-index", "--find-links",
                           "/opt/veriftools/wheels", "--target", deps, "hypothesis"])
for d in ("evidence", "replays", ".work"):
    os.makedirs(os.path.join(ROOT, d), exist_ok=True)
print("setup ok")
