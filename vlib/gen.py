"""Shared Hypothesis strategies (JSON-able specs) and their numpy expansions.

Specs are plain dict/list/float/int/str values so that every case can be written to a
replay file and re-evaluated without Hypothesis.  Large objects (textures with many
grains) are expanded deterministically from a drawn integer seed with
``numpy.random.default_rng(seed)``: the seed is a Hypothesis-drawn value, so the case is
still a pure function of Hypothesis' choices and replays exactly.
"""

from __future__ import annotations

import math

import numpy as np
from hypothesis import strategies as st

# ----------------------------------------------------------------------------------
# scalars

unit_float = st.floats(-1.0, 1.0, allow_nan=False, allow_infinity=False, width=64)
pos01 = st.floats(0.0, 1.0, allow_nan=False, width=64)
small_seed = st.integers(0, 2**31 - 1)


def no_denormal(strategy, tiny=1e-9):
    """Map magnitudes below `tiny` to exactly 0 (parameters are either off or sizeable;
    denormal thresholds/mobilities only probe flush-to-zero artefacts of fastmath code)."""
    return strategy.map(lambda v: 0.0 if abs(v) < tiny else v)


def log_uniform(lo_exp, hi_exp):
    """10**u with u uniform in [lo_exp, hi_exp] (a float strategy)."""
    return st.floats(lo_exp, hi_exp, allow_nan=False).map(lambda u: 10.0**u)


# ----------------------------------------------------------------------------------
# rotations


def quat_to_matrix(q):
    """Unit quaternion (x, y, z, w) -> proper rotation matrix (orthonormal to 1e-16)."""
    q = np.asarray(q, dtype=float)
    nrm = math.sqrt(float(q @ q))
    if not nrm > 1e-6:
        return np.eye(3)
    x, y, z, w = q / nrm
    return np.array(
        [
            [1 - 2 * (y * y + z * z), 2 * (x * y - z * w), 2 * (x * z + y * w)],
            [2 * (x * y + z * w), 1 - 2 * (x * x + z * z), 2 * (y * z - x * w)],
            [2 * (x * z - y * w), 2 * (y * z + x * w), 1 - 2 * (x * x + y * y)],
        ]
    )


def axis_angle_matrix(axis, angle):
    a = np.asarray(axis, dtype=float)
    n = np.linalg.norm(a)
    if not n > 1e-12:
        return np.eye(3)
    a = a / n
    K = np.array([[0, -a[2], a[1]], [a[2], 0, -a[0]], [-a[1], a[0], 0]])
    return np.eye(3) + math.sin(angle) * K + (1 - math.cos(angle)) * (K @ K)


def _all_axis_rotations():
    mats = []
    import itertools

    for perm in itertools.permutations(range(3)):
        for signs in itertools.product((1, -1), repeat=3):
            m = np.zeros((3, 3))
            for i, (p, s) in enumerate(zip(perm, signs)):
                m[i, p] = s
            if np.linalg.det(m) > 0:
                mats.append(m)
    return mats


AXIS24 = _all_axis_rotations()
assert len(AXIS24) == 24

quat = st.lists(unit_float, min_size=4, max_size=4)


def rotation_spec():
    """Generic, axis-aligned, or nearly axis-aligned proper rotation."""
    return st.one_of(
        st.fixed_dictionaries({"k": st.just("q"), "q": quat}),
        st.fixed_dictionaries({"k": st.just("ax"), "i": st.integers(0, 23)}),
        st.fixed_dictionaries(
            {
                "k": st.just("near"),
                "i": st.integers(0, 23),
                "axis": st.lists(unit_float, min_size=3, max_size=3),
                "e": st.integers(2, 16),
            }
        ),
        st.fixed_dictionaries({"k": st.just("e90"), "a": st.lists(st.integers(0, 3), min_size=3, max_size=3)}),
    )


def _euler90(ks):
    """Rotation by multiples of 90 degrees built from Euler angles with math.cos/sin, the way
    users build orientations: entries are +-1 and residues ~6e-17 instead of exact zeros."""

    def rz(k):
        c, s_ = math.cos(k * math.pi / 2), math.sin(k * math.pi / 2)
        return np.array([[c, -s_, 0.0], [s_, c, 0.0], [0.0, 0.0, 1.0]])

    def rx(k):
        c, s_ = math.cos(k * math.pi / 2), math.sin(k * math.pi / 2)
        return np.array([[1.0, 0.0, 0.0], [0.0, c, -s_], [0.0, s_, c]])

    return rz(ks[0]) @ rx(ks[1]) @ rz(ks[2])


def generic_rotation_spec():
    return st.fixed_dictionaries({"k": st.just("q"), "q": quat})


def _flush(M, tiny=1e-100):
    """Entries below 1e-100 in magnitude are set to exactly 0: matrix entries in the
    denormal range make 1/(slip invariant) overflow inside the solver, a region no caller
    can produce and that is excluded from every property domain here (DESIGN.md section 5)."""
    M = np.array(M, dtype=float)
    M[np.abs(M) < tiny] = 0.0
    return M


def rot(spec):
    k = spec["k"]
    if k == "q":
        return _flush(quat_to_matrix(spec["q"]))
    if k == "ax":
        return AXIS24[spec["i"]].copy()
    if k == "near":
        return _flush(AXIS24[spec["i"]] @ axis_angle_matrix(spec["axis"], 10.0 ** (-spec["e"])))
    if k == "e90":
        return _euler90(spec["a"])
    raise ValueError(k)


def angle_from_axis24(R):
    """Smallest rotation angle (degrees) between R and any axis-aligned rotation."""
    best = 180.0
    for m in AXIS24:
        c = (np.trace(R @ m.T) - 1) / 2
        best = min(best, math.degrees(math.acos(max(-1.0, min(1.0, c)))))
    return best


TWOFOLDS = [np.diag([1.0, -1.0, -1.0]), np.diag([-1.0, 1.0, -1.0]), np.diag([-1.0, -1.0, 1.0])]


# ----------------------------------------------------------------------------------
# textures (orientation sets) and volume fractions


def texture_spec(min_n=1, max_n=32, explicit_max=10, families=None):
    """Spec of an orientation set; `orientations(spec)` expands it to (n,3,3)."""
    explicit = st.fixed_dictionaries(
        {
            "fam": st.just("explicit"),
            "rots": st.lists(
                rotation_spec(), min_size=min_n, max_size=max(min(explicit_max, max_n), min_n)
            ),
        }
    )
    n = st.integers(min_n, max_n)
    seeded = st.fixed_dictionaries({"fam": st.just("random"), "n": n, "seed": small_seed})
    clustered = st.fixed_dictionaries(
        {
            "fam": st.just("clustered"),
            "n": n,
            "seed": small_seed,
            "base": rotation_spec(),
            "spread": st.floats(1e-6, 0.6),
        }
    )
    girdle = st.fixed_dictionaries(
        {
            "fam": st.just("girdle"),
            "n": n,
            "seed": small_seed,
            "base": rotation_spec(),
            "axis": st.integers(0, 2),
            "spread": st.floats(0.0, 0.1),
        }
    )
    single = st.fixed_dictionaries({"fam": st.just("single"), "n": n, "base": rotation_spec()})
    options = {
        "explicit": explicit,
        "random": seeded,
        "clustered": clustered,
        "girdle": girdle,
        "single": single,
    }
    if families is None:
        families = list(options)
    return st.one_of(*[options[f] for f in families])


def _random_rotations(rng, n):
    q = rng.normal(size=(n, 4))
    return np.stack([quat_to_matrix(qi) for qi in q])


def orientations(spec):
    """Expand a texture spec to an (n, 3, 3) array; entries in the denormal range are
    flushed to zero and rounding overshoots beyond +-1 are clipped (see `_flush`)."""
    return np.clip(_flush(_orientations(spec)), -1.0, 1.0)


def _orientations(spec):
    fam = spec["fam"]
    if fam == "explicit":
        return np.stack([rot(r) for r in spec["rots"]])
    n = spec["n"]
    if fam == "single":
        return np.repeat(rot(spec["base"])[None], n, axis=0)
    rng = np.random.default_rng(spec["seed"])
    if fam == "random":
        return _random_rotations(rng, n)
    base = rot(spec["base"])
    if fam == "clustered":
        out = np.empty((n, 3, 3))
        for i in range(n):
            out[i] = axis_angle_matrix(rng.normal(size=3), spec["spread"] * rng.normal()) @ base
        return out
    if fam == "girdle":
        ax = np.zeros(3)
        ax[spec["axis"]] = 1.0
        out = np.empty((n, 3, 3))
        for i in range(n):
            wob = axis_angle_matrix(rng.normal(size=3), spec["spread"] * rng.normal())
            out[i] = axis_angle_matrix(ax, rng.uniform(0, 2 * math.pi)) @ wob @ base
        return out
    raise ValueError(fam)


def texture_n(spec):
    return len(spec["rots"]) if spec["fam"] == "explicit" else spec["n"]


def volume_spec():
    """Spec for a vector on the simplex; `volumes(spec, n)` expands it."""
    return st.one_of(
        st.fixed_dictionaries({"k": st.just("uniform")}),
        st.fixed_dictionaries(
            {"k": st.just("explicit"), "w": st.lists(st.floats(1e-6, 1.0), min_size=1, max_size=12)}
        ),
        st.fixed_dictionaries({"k": st.just("random"), "seed": small_seed, "conc": st.floats(0.05, 5.0)}),
        st.fixed_dictionaries(
            {"k": st.just("dominant"), "i": st.integers(0, 10**6), "share": st.floats(0.5, 0.999999)}
        ),
        st.fixed_dictionaries(
            {"k": st.just("zeros"), "seed": small_seed, "p0": st.floats(0.05, 0.9)}
        ),
        # a vertex of the simplex: one grain holds all the volume
        st.fixed_dictionaries({"k": st.just("vertex"), "i": st.integers(0, 10**6)}),
    )


def volumes(spec, n):
    k = spec["k"]
    if k == "uniform":
        return np.full(n, 1.0 / n)
    if k == "explicit":
        w = np.resize(np.asarray(spec["w"], dtype=float), n)
        return w / w.sum()
    if k == "random":
        rng = np.random.default_rng(spec["seed"])
        w = rng.gamma(spec["conc"], size=n) + 1e-12
        return w / w.sum()
    if k == "dominant":
        if n == 1:
            return np.ones(1)
        w = np.full(n, (1.0 - spec["share"]) / (n - 1))
        w[spec["i"] % n] = spec["share"]
        return w / w.sum()
    if k == "vertex":
        w = np.zeros(n)
        w[spec["i"] % n] = 1.0
        return w
    if k == "zeros":
        rng = np.random.default_rng(spec["seed"])
        w = rng.uniform(0.1, 1.0, size=n)
        z = rng.uniform(size=n) < spec["p0"]
        if z.all():
            z[rng.integers(n)] = False
        w[z] = 0.0
        return w / w.sum()
    raise ValueError(k)


# ----------------------------------------------------------------------------------
# velocity gradients


def velgrad_spec(allow_trace=True):
    """3x3 velocity gradient families, each conjugated by a rotation."""
    fam = st.sampled_from(["simple", "pure", "axi_c", "axi_e", "general", "raw", "spin"])
    return st.fixed_dictionaries(
        {
            "fam": fam,
            "Q": rotation_spec(),
            "a": st.floats(-1.0, 1.0),  # shape parameter
            "w": st.lists(st.floats(-2.0, 2.0), min_size=3, max_size=3),  # vorticity
            "raw": st.lists(st.floats(-1.0, 1.0), min_size=9, max_size=9),
            "tr": st.floats(-0.5, 0.5) if allow_trace else st.just(0.0),
            "use_tr": st.booleans() if allow_trace else st.just(False),
        }
    )


def velgrad(spec):
    fam = spec["fam"]
    a = spec["a"]
    if fam == "simple":
        L = np.zeros((3, 3))
        L[0, 1] = 2.0
    elif fam == "pure":
        L = np.diag([1.0, -1.0, 0.0])
    elif fam == "axi_c":
        L = np.diag([0.5, 0.5, -1.0])
    elif fam == "axi_e":
        L = np.diag([-0.5, -0.5, 1.0])
    elif fam == "general":
        D = np.diag([1.0, -(1.0 + a) / 2.0, -(1.0 - a) / 2.0])
        w = spec["w"]
        W = np.array([[0, -w[2], w[1]], [w[2], 0, -w[0]], [-w[1], w[0], 0]])
        L = D + W
    elif fam == "spin":
        # rigid-body rotation: zero strain rate, non-zero vorticity
        w = _flush(np.asarray(spec["w"], dtype=float))  # denormal spins are outside the stated domain
        if not np.any(w):
            w = np.array([0.0, 0.0, 1.0])
        L = np.array([[0, -w[2], w[1]], [w[2], 0, -w[0]], [-w[1], w[0], 0]])
        return L  # exactly skew: no conjugation (keeps D == 0 exactly), no trace
    else:
        L = np.asarray(spec["raw"], dtype=float).reshape(3, 3)
        L = L - np.trace(L) / 3 * np.eye(3)
    Q = rot(spec["Q"])
    L = Q @ L @ Q.T
    if spec["use_tr"]:
        L = L + spec["tr"] * np.eye(3)
    return _flush(L)


def normalise_velgrad(L):
    """Scale L to unit max |principal strain rate| as Mineral.update_orientations does."""
    D = (L + L.T) / 2
    s = np.abs(np.linalg.eigvalsh(D)).max()
    if not s > 1e-12:
        return None, None, 0.0
    return L / s, D / s, s


# ----------------------------------------------------------------------------------
# D-Rex parameters

FABRICS = [
    (0, 0, "olivine_A"),
    (0, 1, "olivine_B"),
    (0, 2, "olivine_C"),
    (0, 3, "olivine_D"),
    (0, 4, "olivine_E"),
    (1, 5, "enstatite_AB"),
]


def drex_params():
    return st.fixed_dictionaries(
        {
            "pf": st.integers(0, 5),  # index into FABRICS
            "regime": st.sampled_from([4, 6]),
            "p": st.floats(1.0, 2.0),
            "n": st.floats(2.0, 5.0),
            "lam": st.one_of(st.just(0.0), st.just(5.0), no_denormal(st.floats(0.0, 10.0))),
            "M": st.one_of(st.just(0.0), st.just(125.0), no_denormal(st.floats(0.0, 200.0))),
            "phi": st.one_of(st.just(1.0), st.floats(0.01, 1.0)),
        }
    )
