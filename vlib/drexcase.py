"""Shared case layout for the rate-level (pydrex.core.derivatives) checks C02-C04, C07."""

import numpy as np
from hypothesis import strategies as st

from pydrex import core

from vlib import gen
from vlib.harness import Violation, sut


def rate_case(max_n=24, explicit_max=8, families=None, allow_trace=True):
    return st.fixed_dictionaries(
        {
            "par": gen.drex_params(),
            "tex": gen.texture_spec(1, max_n, explicit_max, families),
            "vol": gen.volume_spec(),
            "L": gen.velgrad_spec(allow_trace),
        }
    )


def expand(case):
    """-> dict(regime, phase, fabric, A, f, L, D, scale, p, n, lam, M, phi) or None if L has no strain."""
    par = case["par"]
    phase, fabric, fname = gen.FABRICS[par["pf"]]
    A = gen.orientations(case["tex"])
    n = len(A)
    f = gen.volumes(case["vol"], n)
    Lraw = gen.velgrad(case["L"])
    L, D, s = gen.normalise_velgrad(Lraw)
    if L is None:
        if not np.any(Lraw):
            return None
        # no strain but vorticity (pure spin): callers hand it over un-normalised
        L, D, s = Lraw, np.zeros((3, 3)), 0.0
    return {
        "regime": par["regime"],
        "phase": phase,
        "fabric": fabric,
        "fname": fname,
        "A": A,
        "f": f,
        "L": L,
        "D": D,
        "scale": s,
        "p": par["p"],
        "n": par["n"],
        "lam": par["lam"],
        "M": par["M"],
        "phi": par["phi"],
    }


def call(x, **over):
    """Call pydrex.core.derivatives with the expanded case `x` (overrides by keyword)."""
    a = dict(
        regime=x["regime"],
        phase=x["phase"],
        fabric=x["fabric"],
        n_grains=len(x["A"]),
        orientations=np.ascontiguousarray(x["A"]),
        fractions=np.ascontiguousarray(x["f"]),
        strain_rate=np.ascontiguousarray(x["D"]),
        velocity_gradient=np.ascontiguousarray(x["L"]),
        deformation_gradient_spin=np.full((3, 3), np.nan),
        stress_exponent=float(x["p"]),
        deformation_exponent=float(x["n"]),
        nucleation_efficiency=float(x["lam"]),
        gbm_mobility=float(x["M"]),
        volume_fraction=float(x["phi"]),
    )
    a.update(over)
    f_in = a["fractions"]
    if f_in.dtype.kind == "f" and np.all(f_in == np.round(f_in)):
        # a vertex of the simplex ([0, ..., 1, ..., 0], or a lone grain [1]) is handed over as
        # the integer array such a literal is
        a["fractions"] = f_in.astype(np.int64)
    keep = {k: a[k].copy() for k in ("orientations", "fractions", "strain_rate", "velocity_gradient")}
    Adot, fdot = sut(core.derivatives, **a)
    for k, v in keep.items():
        if not np.array_equal(a[k], v):
            raise Violation(f"core.derivatives modified its input array `{k}`")
    return np.asarray(Adot), np.asarray(fdot)


def conditioning(x, gs):
    """Classify the grains of a case: returns dict of counts used by the predicates.

    * ``noslip``: max activity < 1e-9 (no slip resolved; C03's domain)
    * ``tie``: olivine grain whose two least active systems are closer than 1e-7 of the
      maximum while the second is still non-negligible (model discontinuous there)
    * ``gamma0``: |slip rate on the softest system| < 1e-6 (strain energy ~ |gamma|^(p/n)
      is not Lipschitz at 0, so rounding in gamma is amplified without bound)
    """
    out = {"noslip": 0, "tie": 0, "gamma0": 0, "multi": 0}
    for g in gs:
        act = np.where(np.isfinite(g["act"]), g["act"], 0.0)
        qmax = act.max()
        if qmax < 1e-9:
            out["noslip"] += 1
            continue
        if x["phase"] == 0:
            srt = np.sort(act)
            if (srt[1] - srt[0]) < 1e-7 * qmax and srt[1] >= 1e-6 * qmax:
                out["tie"] += 1
        if abs(g["gamma"]) < 1e-6:
            out["gamma0"] += 1
        if np.count_nonzero(np.abs(g["beta"]) > 1e-3) >= 2:
            out["multi"] += 1
    return out
