"""Texture-update histories: generation, execution against pydrex.Mineral, references.

A history is described in *dimensionless* time tau in [0, T]:

    L(t, x) = s * Lhat(tau, x),   x(t) = X(tau),   tau = s * (t - t0)

with Lhat(tau, x) = amp * [L0 + a1*sin(om*tau)*L1 + a2*tanh(c.x)*L2] (L0, L1, L2 from the
velocity-gradient families, L0 scaled to unit max principal strain rate) and pathlines
X(tau) fixed / linear / circular.  `s` (1/s) is the strain-rate scale, log-uniform over
[1e-16, 1e3].  The partition of [0, T] is a sorted list of cut fractions.
"""

from __future__ import annotations

import math

import numpy as np
from hypothesis import strategies as st

import pydrex
from pydrex import core as _core
from pydrex import exceptions as _err
from pydrex import minerals as _minerals

from vlib import gen
from vlib.harness import Rejected, Violation, check_budget, sut

ACCEPTED_REGIMES = [1, 4, 6, 0, 7]  # matrix_diffusion, matrix_dislocation, frictional_yielding, min/max viscosity
DISL_REGIMES = [4, 6]

# ----------------------------------------------------------------------------------
# strategies


def mineral_spec(min_n=2, max_n=40, regimes=(4, 6), fabrics=range(6), explicit_max=8, allow_default=True):
    tex = gen.texture_spec(min_n, max_n, explicit_max)
    opts = [
        st.fixed_dictionaries(
            {
                "pf": st.sampled_from(list(fabrics)),
                "regime": st.sampled_from(list(regimes)),
                "init": st.just("given"),
                "tex": tex,
                "vol": gen.volume_spec(),
                # memory layout of the arrays handed to the constructor (same values)
                "layout": st.sampled_from(["C", "C", "F", "moveaxis", "strided"]),
            }
        )
    ]
    # a texture written by hand as 0/+-1 direction-cosine matrices: an integer-typed array
    n_lo = max(min_n, 1)
    opts.append(
        st.fixed_dictionaries(
            {
                "pf": st.sampled_from(list(fabrics)),
                "regime": st.sampled_from(list(regimes)),
                "init": st.just("given"),
                "tex": st.fixed_dictionaries(
                    {
                        "fam": st.just("explicit"),
                        "rots": st.lists(
                            st.fixed_dictionaries({"k": st.just("ax"), "i": st.integers(0, 23)}),
                            min_size=n_lo,
                            max_size=max(min(explicit_max, max_n), n_lo),
                        ),
                    }
                ),
                "vol": gen.volume_spec(),
                "layout": st.just("int"),
            }
        )
    )
    given, int_typed = opts
    if not allow_default:
        return st.one_of(given, given, given, given, int_typed)
    default = st.fixed_dictionaries(
        {
            "pf": st.sampled_from(list(fabrics)),
            "regime": st.sampled_from(list(regimes)),
            "init": st.just("default"),
            "n": st.integers(min_n, max_n),
            "seed": gen.small_seed,
        }
    )
    return st.one_of(given, default, given, default, given, int_typed)


def param_spec(chi=None, M=None):
    return st.fixed_dictionaries(
        {
            "p": st.one_of(st.just(1.5), st.floats(1.0, 2.0)),
            "n": st.one_of(st.just(3.5), st.floats(2.0, 5.0)),
            "lam": st.one_of(st.just(5.0), gen.no_denormal(st.floats(0.0, 10.0))),
            "M": M if M is not None else st.one_of(st.just(0.0), st.just(125.0), gen.no_denormal(st.floats(0.0, 200.0))),
            "chi": chi if chi is not None else st.one_of(st.just(0.0), st.just(0.3), gen.no_denormal(st.floats(0.0, 0.9), 1e-6)),
        }
    )


def f0_spec(large=False):
    opts = [
        st.fixed_dictionaries({"k": st.just("I")}),
        st.fixed_dictionaries(
            {
                "k": st.just("RS"),
                "R": gen.rotation_spec(),
                "Q": gen.rotation_spec(),
                "s": st.lists(st.floats(0.4, 2.5), min_size=3, max_size=3),
            }
        ),
    ]
    if large:
        # the deformation gradient of a run that is being continued after a very large strain
        # (principal stretches 1e-3 .. 1e8)
        opts.append(
            st.fixed_dictionaries(
                {
                    "k": st.just("RS"),
                    "R": gen.rotation_spec(),
                    "Q": gen.rotation_spec(),
                    "s": st.lists(st.integers(-30, 80).map(lambda i: 10.0 ** (i / 10.0)), min_size=3, max_size=3),
                }
            )
        )
        opts = [opts[2], opts[0], opts[1], opts[2]]
    return st.one_of(*opts)


def flow_spec(max_T=2.0, allow_trace=True, rate_exp=(-16.0, 3.0)):
    return st.fixed_dictionaries(
        {
            "L0": gen.velgrad_spec(allow_trace),
            "L1": gen.velgrad_spec(False),
            "L2": gen.velgrad_spec(False),
            "amp": st.floats(0.25, 1.5),
            # amplitudes are 0 or >= 1e-3 and coordinates are rounded to 1e-3, so that a
            # strain rate is either exactly zero or far from the denormal range
            "a1": st.one_of(st.just(0.0), st.floats(1e-3, 0.8)),
            "a2": st.one_of(st.just(0.0), st.floats(1e-3, 0.8)),
            "om": st.floats(0.5, 6.0),
            "c": st.lists(st.floats(-1.0, 1.0).map(lambda v: round(v, 3)), min_size=3, max_size=3),
            "path": st.one_of(
                st.fixed_dictionaries({"k": st.just("fixed"), "x0": st.lists(st.floats(-2, 2).map(lambda v: round(v, 3)), min_size=3, max_size=3)}),
                st.fixed_dictionaries(
                    {
                        "k": st.just("linear"),
                        "x0": st.lists(st.floats(-2, 2).map(lambda v: round(v, 3)), min_size=3, max_size=3),
                        "v": st.lists(st.floats(-1, 1).map(lambda v: round(v, 3)), min_size=3, max_size=3),
                    }
                ),
                st.fixed_dictionaries(
                    {
                        "k": st.just("circular"),
                        "x0": st.lists(st.floats(-2, 2).map(lambda v: round(v, 3)), min_size=3, max_size=3),
                        "r": st.floats(0.1, 2.0),
                    }
                ),
            ),
            "T": st.floats(0.05, max_T),
            # log10 of the strain-rate scale s; the ends of the documented range are over-sampled
            "u": st.one_of(
                st.floats(*rate_exp),
                st.sampled_from([rate_exp[0], rate_exp[0] + 0.5, rate_exp[0] + 1.0, rate_exp[1], 0.0, -4.0]),
                st.floats(rate_exp[0], rate_exp[0] + 1.0),
                st.floats(rate_exp[1] - 1.0, rate_exp[1]),
            ),
            "t0": st.sampled_from([0.0, 1.0, -3.0, 1e3]),  # start time in units of 1/s
        }
    )


def cuts_spec(max_updates=12):
    """Partition of [0, T] into 1..max_updates updates: sorted distinct cut fractions."""
    return st.lists(st.floats(0.02, 0.98), min_size=0, max_size=max_updates - 1, unique=True).map(sorted)


# ----------------------------------------------------------------------------------
# expansion


def build_mineral(ms):
    phase, fabric, _ = gen.FABRICS[ms["pf"]]
    kw = dict(
        phase=_core.MineralPhase(phase),
        fabric=_core.MineralFabric(fabric),
        regime=_core.DeformationRegime(ms["regime"]),
    )
    if ms["init"] == "default":
        return sut(_minerals.Mineral, n_grains=ms["n"], seed=ms["seed"], **kw)
    A = gen.orientations(ms["tex"])
    f = gen.volumes(ms["vol"], len(A))
    A, f = relayout(A, f, ms.get("layout", "C"))
    return sut(_minerals.Mineral, n_grains=len(A), fractions_init=f, orientations_init=A, **kw)


def relayout(A, f, layout):
    """Same values, different memory layout (any NumPy-compatible array is a legal input)."""
    if layout == "F":
        return np.asfortranarray(A), f
    if layout == "moveaxis":  # component-first storage (3, 3, n) viewed as (n, 3, 3)
        return np.moveaxis(np.ascontiguousarray(np.moveaxis(A, 0, -1)), -1, 0), f
    if layout == "int":
        # integer dtype where the values allow it (axis-aligned orientations; a lone grain's volume)
        if np.all(A == np.round(A)):
            A = A.astype(np.int64)
        if np.all(f == np.round(f)):
            f = f.astype(np.int64)
        return A, f
    if layout == "strided":
        A2 = np.repeat(A, 2, axis=0)[::2]
        f2 = np.repeat(f, 2)[::2]
        return A2, f2
    return A, f


def mineral_n(ms):
    return ms["n"] if ms["init"] == "default" else gen.texture_n(ms["tex"])


def params_dict(ps, assemblage=(0,), fractions=(1.0,), n_grains=None):
    d = _core.DefaultParams().as_dict()
    d["phase_assemblage"] = tuple(_core.MineralPhase(p) for p in assemblage)
    d["phase_fractions"] = tuple(fractions)
    d["stress_exponent"] = float(ps["p"])
    d["deformation_exponent"] = float(ps["n"])
    d["nucleation_efficiency"] = float(ps["lam"])
    d["gbm_mobility"] = float(ps["M"])
    d["gbs_threshold"] = float(ps["chi"])
    if n_grains is not None:
        # params["number_of_grains"] is only a default for constructing minerals; a Mineral
        # carries its own n_grains.  The two deliberately differ for even grain counts, in
        # both directions (a dictionary made for a finer or for a coarser aggregate).
        n = int(n_grains)
        d["number_of_grains"] = n if n % 2 else (3500 if n % 4 == 0 else 1)
    return d


def f0(spec):
    if spec["k"] == "I":
        return np.eye(3)
    Q = gen.rot(spec["Q"])
    F = gen.rot(spec["R"]) @ (Q @ np.diag(spec["s"]) @ Q.T)
    # Fortran-ordered when the first stretch is below 1 (same values, other memory layout)
    return np.asfortranarray(F) if spec["s"][0] < 1.0 else F


class Flow:
    """Callable velocity-gradient field and pathline of a history."""

    def __init__(self, fs, rate_mult=1.0, frame=None):
        L0 = gen.velgrad(fs["L0"])
        L0n, _, s0 = gen.normalise_velgrad(L0)
        # a strain-free L0 (pure spin) is kept as it is: rigid rotation is a legal history
        self.L0 = (L0n if L0n is not None else L0) * fs["amp"]
        L1n, _, _ = gen.normalise_velgrad(gen.velgrad(fs["L1"]))
        L2n, _, _ = gen.normalise_velgrad(gen.velgrad(fs["L2"]))
        self.L1 = (L1n if L1n is not None else np.zeros((3, 3))) * fs["amp"] * fs["a1"]
        self.L2 = (L2n if L2n is not None else np.zeros((3, 3))) * fs["amp"] * fs["a2"]
        self.om = fs["om"]
        self.c = np.asarray(fs["c"], dtype=float)
        self.path = fs["path"]
        self.T = fs["T"]
        self.s = 10.0 ** fs["u"] * rate_mult
        self.t0 = fs["t0"] / self.s
        self.Q = frame  # optional rotation of the external frame
        self.time_dependent = bool(np.abs(self.L1).max() > 0)
        self.position_dependent = bool(np.abs(self.L2).max() > 0 and self.path["k"] != "fixed")
        self._const = self._xconst = self._last = None
        self.tampered = None

    # dimensionless
    def X(self, tau):
        p = self.path
        x0 = np.asarray(p["x0"], dtype=float)
        if p["k"] == "fixed":
            x = x0
        elif p["k"] == "linear":
            x = x0 + np.asarray(p["v"]) * tau
        else:
            x = x0 + p["r"] * np.array([math.cos(tau), math.sin(tau), 0.0])
        return self.Q @ x if self.Q is not None else x

    def Lhat_x(self, tau, x):
        if self.Q is not None:
            x = self.Q.T @ np.asarray(x)
        L = self.L0 + math.sin(self.om * tau) * self.L1 + math.tanh(float(self.c @ x)) * self.L2
        return self.Q @ L @ self.Q.T if self.Q is not None else L

    def Lhat(self, tau):
        return self.Lhat_x(tau, self.X(tau))

    # dimensional callables handed to pydrex
    def tau_of(self, t):
        return (t - self.t0) * self.s

    def t_of(self, tau):
        return self.t0 + tau / self.s

    def get_velocity_gradient(self, t, x):
        """Steady flows hand out one and the same array on every call (`lambda t, x: L`, the
        commonest user callable); whatever was handed out must never be written to."""
        check_budget()
        self._audit()
        if not (self.time_dependent or self.position_dependent):
            if self._const is None:
                self._const = self.s * self.Lhat_x(0.0, self.X(0.0))
                if np.all(self._const == np.round(self._const)) and np.abs(self._const).max() < 2**31:
                    # integral entries (e.g. unit simple shear written as [[0, 2, 0], ...]): handed
                    # over with the integer dtype such a literal has
                    self._const = self._const.astype(np.int64)
            out = self._const
        else:
            out = self.s * self.Lhat_x(self.tau_of(t), x)
        self._last = (out, out.copy(), "velocity gradient")
        return out

    def get_position(self, t):
        self._audit()
        if self.path["k"] == "fixed":
            if self._xconst is None:
                self._xconst = self.X(0.0).copy()
            out = self._xconst
        else:
            out = self.X(self.tau_of(t))
        self._last = (out, out.copy(), "position")
        return out

    def _audit(self):
        if self._last is not None:
            arr, pristine, what = self._last
            if not np.array_equal(arr, pristine):
                self.tampered = f"the {what} array returned by the user callable was modified in place"

    def strain(self, ta, tb, npts=801):
        """Accumulated strain: integral of max |eig D| over [ta, tb] (dimensionless tau)."""
        if tb <= ta:
            return 0.0
        taus = np.linspace(ta, tb, npts)
        vals = np.empty(npts)
        for i, t in enumerate(taus):
            L = self.Lhat(t)
            vals[i] = np.abs(np.linalg.eigvalsh((L + L.T) / 2)).max()
        return float(np.sum((vals[1:] + vals[:-1]) * 0.5 * np.diff(taus)))

    def tr_integral(self, ta, tb, npts=801):
        taus = np.linspace(ta, tb, npts)
        vals = np.array([np.trace(self.Lhat(t)) for t in taus])
        return float(np.sum((vals[1:] + vals[:-1]) * 0.5 * np.diff(taus)))

    def reference_F(self, F_start, ta, tb, rtol=1e-12, atol=1e-14):
        """Independent solution of dF/dtau = Lhat(tau).F with DOP853."""
        from scipy.integrate import solve_ivp

        if tb <= ta:
            return np.array(F_start, dtype=float)

        def rhs(t, y):
            return (self.Lhat(t) @ y.reshape(3, 3)).ravel()

        sol = solve_ivp(rhs, (ta, tb), np.asarray(F_start, dtype=float).ravel(), method="DOP853", rtol=rtol, atol=atol)
        if not sol.success:
            raise RuntimeError("reference integration failed: " + sol.message)
        return sol.y[:, -1].reshape(3, 3)


def tau_points(T, cuts):
    """Partition points; cuts closer than 1e-3*T to their predecessor are dropped (an
    update needs an interval of positive length in floating point)."""
    pts = [0.0]
    for c in sorted(cuts):
        if c * T - pts[-1] >= 1e-3 * T and T - c * T >= 1e-3 * T:
            pts.append(c * T)
    return pts + [T]


SOLVER_ERRORS = (_err.IterationError,)


def update(mineral, params, F, flow, ta, tb, get_regime=None, **kw):
    """One Mineral.update_orientations call over dimensionless [ta, tb]; the arguments handed
    over (parameter dictionary, starting deformation gradient) must come back unmodified."""
    import copy

    params_before = copy.deepcopy(params)
    F_before = np.array(F, copy=True)
    out = _update(mineral, params, F, flow, ta, tb, get_regime, **kw)
    flow._audit()
    if flow.tampered:
        raise Violation(flow.tampered)
    if params != params_before:
        changed = [k for k in params_before if params.get(k) != params_before[k]] + [k for k in params if k not in params_before]
        raise Violation(f"update_orientations modified the parameter dictionary it was given (keys {changed})")
    if not np.array_equal(np.asarray(F), F_before):
        raise Violation("update_orientations modified the deformation gradient array it was given")
    return out


def update_bulk(minerals, params, F, flow, ta, tb, get_regime=None, **kw):
    """One pydrex.update_all call over dimensionless [ta, tb], with the same argument audits."""
    import copy

    params_before = copy.deepcopy(params)
    F_before = np.array(F, copy=True)
    lst = list(minerals)
    out = sut(
        pydrex.update_all,
        lst,
        params,
        F,
        flow.get_velocity_gradient,
        (flow.t_of(ta), flow.t_of(tb), flow.get_position),
        get_regime=get_regime,
        allowed=SOLVER_ERRORS,
        **kw,
    )
    flow._audit()
    if flow.tampered:
        raise Violation(flow.tampered)
    if params != params_before:
        raise Violation("update_all modified the parameter dictionary it was given")
    if not np.array_equal(np.asarray(F), F_before):
        raise Violation("update_all modified the deformation gradient array it was given")
    if len(lst) != len(minerals) or any(a is not b for a, b in zip(lst, minerals)):
        raise Violation("update_all modified the list of minerals it was given")
    return out


def _update(mineral, params, F, flow, ta, tb, get_regime=None, **kw):
    return sut(
        mineral.update_orientations,
        params,
        F,
        flow.get_velocity_gradient,
        (flow.t_of(ta), flow.t_of(tb), flow.get_position),
        get_regime=get_regime,
        allowed=SOLVER_ERRORS,
        **kw,
    )


def snapshot_bytes(mineral):
    return [a.tobytes() for a in mineral.orientations], [f.tobytes() for f in mineral.fractions]


def validity(A, f, n, bound, what):
    """C01 snapshot validity predicate; raises Violation."""
    if A.shape != (n, 3, 3) or f.shape != (n,):
        raise Violation(f"{what}: snapshot shapes {A.shape}, {f.shape} for n_grains={n}")
    if not (np.all(np.isfinite(f)) and np.all(np.isfinite(A))):
        raise Violation(f"{what}: non-finite values in stored snapshot")
    if f.min() < 0:
        raise Violation(f"{what}: negative volume fraction {f.min():.3e}")
    if abs(f.sum() - 1.0) > 1e-9:
        raise Violation(f"{what}: fractions sum to {f.sum()!r}")
    if np.abs(A).max() > 1.0:
        raise Violation(f"{what}: orientation entry outside [-1,1]: {np.abs(A).max()!r}")
    dev = float(np.abs(np.einsum("gij,gkj->gik", A, A) - np.eye(3)).max())
    if dev > bound:
        raise Violation(f"{what}: max|A.A^T-I| = {dev:.3e} > bound {bound:.3e}", dev)
    det = np.linalg.det(A)
    if np.isfinite(bound) and det.min() <= 0:
        raise Violation(f"{what}: orientation with non-positive determinant {det.min():.3e}")
    return dev


class GbsRecorder:
    """Observe pydrex.utils.apply_gbs (public module attribute looked up at call time by
    minerals.py) without changing its behaviour: records copies of inputs and outputs."""

    def __init__(self, keep="last"):
        self.calls = []
        self.keep = keep
        self.min_margin = np.inf  # smallest relative distance of a pre-floor fraction to the threshold

    def __enter__(self):
        from pydrex import utils as _utils

        self._utils = _utils
        self._orig = _utils.apply_gbs
        rec = self

        def wrapper(orientations, fractions, gbs_threshold, orientations_prev, n_grains):
            o_in = orientations.copy()
            f_in = fractions.copy()
            p_in = orientations_prev.copy()
            thr = gbs_threshold / n_grains
            if thr > 0:
                rec.min_margin = min(rec.min_margin, float(np.abs(f_in - thr).min() / thr))
            out = rec._orig(orientations, fractions, gbs_threshold, orientations_prev, n_grains)
            entry = {
                "o_in": o_in,
                "f_in": f_in,
                "prev": p_in,
                "chi": gbs_threshold,
                "n": n_grains,
                "o_out": out[0].copy(),
                "f_out": out[1].copy(),
            }
            if rec.keep == "last":
                rec.calls[:] = [entry]
            else:
                rec.calls.append(entry)
            return out

        _utils.apply_gbs = wrapper
        return self

    def __exit__(self, *exc):
        self._utils.apply_gbs = self._orig
        return False
