"""Common machinery: oracles, seeded Hypothesis drivers, evidence, findings, replay.

Every check module (``checks/cNN.py``) exposes ``ORACLES`` (a list of `Oracle`) and
``RULE`` (the non-triviality rule, text).  `run_property` drives them.

Conventions
-----------
* A *case* is a plain JSON-serialisable value produced by a Hypothesis strategy.
  ``oracle.check(case)`` is a pure function of the case and of the code under test; it
  returns an info dict (``nontrivial``: bool, ``labels``: list[str], ``residual``:
  float) or raises `Violation` / `Skip`.
* Calls into the code under test go through `sut(...)` so that an exception raised by
  PyDRex becomes a `Violation` (or a `Rejected` when the oracle allows that type) while
  a bug in an oracle stays a harness error (exit code 2, never a VIOLATION line).
* Exit codes: 0 held, 1 violation (with ``VIOLATION property=<id> replay=<path>``),
  2 harness error.
"""

from __future__ import annotations

import dataclasses
import hashlib
import json
import math
import os
import subprocess
import sys
import time
import traceback
from collections import Counter
from typing import Any, Callable

ROOT = os.path.dirname(os.path.dirname(os.path.abspath(__file__)))
# VERIF_OUT_DIR redirects everything a run writes (used by tools/mutate.py so that runs
# against mutated copies of the repository never touch the committed evidence/replays).
_OUT = os.environ.get("VERIF_OUT_DIR") or ROOT
REPLAY_DIR = os.path.join(_OUT, "replays")
KNOWN_FILE = os.path.join(ROOT, "KNOWN_FINDINGS.txt")
EVIDENCE_DIR = os.path.join(_OUT, "evidence")
WORK_DIR = os.path.join(_OUT, ".work")


class Violation(Exception):
    """The property does not hold for this case."""

    def __init__(self, msg, residual=None):
        super().__init__(msg)
        self.residual = residual


class Skip(Exception):
    """Case excluded by an explicit conditioning predicate (counted, by reason)."""


class Rejected(Exception):
    """The code under test refused the input with an allowed exception type."""

    def __init__(self, exc):
        super().__init__(f"{type(exc).__name__}: {exc}")
        self.exc = exc


class _CallTimeout(BaseException):
    pass


_alarm_fired = [False]
_depth = [0]
_INFLIGHT = [None]  # path of the "case being evaluated" record of this shard process


def _note_inflight(prop_id, oracle, case):
    """A shard process that is killed by the code under test (numba/LAPACK fatal error,
    segmentation fault) cannot report anything: the parent finds the case here and replays it
    in a fresh process to decide between "the code aborts on this input" and a harness fault."""
    path = _INFLIGHT[0]
    if path is None:
        return
    try:
        with open(path, "w") as f:
            json.dump({"property": prop_id, "oracle": oracle.name, "class": "abort", "message": "", "case": case}, f, default=str)
    except OSError:
        pass
_cpu_deadline = [None]


def check_budget():
    """Cooperative side of the watchdog: called from the Python callbacks the harness hands to
    PyDRex (velocity gradient, position), i.e. on every right-hand-side evaluation of the ODE
    solver. Raising from ordinary Python code is safe, whereas a signal handler that raises
    while compiled code or the Fortran solver is on the stack can crash the interpreter; the
    signal timers therefore only serve as a backstop at five times the limit (at least 300 s of
    CPU time, well beyond any JIT compilation)."""
    d = _cpu_deadline[0]
    if d is not None and time.process_time() > d:
        _alarm_fired[0] = True
        raise _CallTimeout()


def _on_alarm(signum, frame):
    _alarm_fired[0] = True
    raise _CallTimeout()


SUT_TIMEOUT_S = float(os.environ.get("VERIF_SUT_TIMEOUT", "120"))


def sut(fn, *args, allowed=(), **kwargs):
    """Call the code under test; its exceptions are violations unless `allowed`.

    A single call that uses more than SUT_TIMEOUT_S of CPU time (an ODE solver crawling with
    microscopic steps) is abandoned and the case counted as skipped ("timeout"): a time limit
    is never a correctness signal.  CPU time is the limit so that the outcome does not depend
    on how loaded the machine is.  The limit is enforced cooperatively from the harness'
    callbacks (`check_budget`); signal timers (5x CPU, 10x wall clock) are a backstop for
    calls that never come back to Python.
    """
    import signal
    import threading

    use_alarm = threading.current_thread() is threading.main_thread() and SUT_TIMEOUT_S > 0 and _depth[0] == 0
    _depth[0] += 1
    if use_alarm:
        _alarm_fired[0] = False
        old_handler = signal.signal(signal.SIGALRM, _on_alarm)
        old_prof = signal.signal(signal.SIGPROF, _on_alarm)
        _cpu_deadline[0] = time.process_time() + SUT_TIMEOUT_S
        signal.setitimer(signal.ITIMER_PROF, max(5 * SUT_TIMEOUT_S, 300.0))
        signal.setitimer(signal.ITIMER_REAL, max(10 * SUT_TIMEOUT_S, 900.0))
    try:
        out = fn(*args, **kwargs)
        if use_alarm and _alarm_fired[0]:
            # the interruption was swallowed somewhere below: the result is not to be trusted
            raise _CallTimeout()
        return out
    except _CallTimeout:
        name = getattr(fn, "__name__", None) or getattr(getattr(fn, "func", None), "__name__", "call")
        raise Skip(f"timeout: {name} exceeded {SUT_TIMEOUT_S:.0f}s") from None
    except allowed as e:  # noqa: B030
        raise Rejected(e) from None
    except (Violation, Skip, Rejected):
        raise
    except BaseException as e:  # noqa: BLE001
        if isinstance(e, (KeyboardInterrupt, SystemExit, MemoryError)):
            raise
        if _alarm_fired[0]:
            # the watchdog interrupted compiled code (numba reports that as SystemError, a
            # solver callback may wrap it): still a timeout, never a verdict
            raise Skip(f"timeout: call exceeded {SUT_TIMEOUT_S:.0f}s") from None
        tb = traceback.extract_tb(e.__traceback__)
        where = ""
        for fr in reversed(tb):
            if "pydrex" in fr.filename:
                where = f" at {os.path.basename(fr.filename)}:{fr.lineno}"
                break
        name = getattr(fn, "__name__", None) or getattr(
            getattr(fn, "func", None), "__name__", repr(fn)
        )
        raise Violation(
            f"{name} raised {type(e).__name__}: {str(e)[:200]}{where}"
        ) from None
    finally:
        _depth[0] -= 1
        if use_alarm:
            _cpu_deadline[0] = None
            signal.setitimer(signal.ITIMER_PROF, 0)
            signal.setitimer(signal.ITIMER_REAL, 0)
            signal.signal(signal.SIGALRM, old_handler)
            signal.signal(signal.SIGPROF, old_prof)


def require(cond, msg, residual=None):
    if not cond:
        raise Violation(msg, residual)


@dataclasses.dataclass
class Oracle:
    name: str
    strategy: Any
    check: Callable[[Any], dict | None]
    classify: Callable[[Any], str] = lambda case: "any"
    quick: int = 200
    thorough: int = 1500  # per shard
    # class -> alternative check describing the *known defective* behaviour; used in
    # place of `check` while that (oracle, class) is an active known finding, so that
    # any further deviation is still reported.  Absent => class is skipped (counted).
    known_models: dict = dataclasses.field(default_factory=dict)
    note: str = ""
    shrink_seconds: float = 120.0
    # Optional Hypothesis rule-based state machine: `machine(hooks)` returns a
    # RuleBasedStateMachine subclass that drives the same executor as `check`, records the
    # operation list it applied as a JSON-able case, and reports through
    # hooks.done(case, info) / hooks.fail(case, msg, residual).  `strategy` is unused then.
    machine: Any = None
    machine_steps: int = 30


# ----------------------------------------------------------------------------------
# known findings


def load_known(prop_id):
    """Return list of dicts(kind, property, key, witness, text) for this property."""
    out = []
    if not os.path.exists(KNOWN_FILE):
        return out
    with open(KNOWN_FILE) as f:
        for line in f:
            line = line.strip()
            if not line or line.startswith("#"):
                continue
            kind, _, rest = line.partition(":")
            kind = kind.strip()
            fields = rest.strip().split()
            d = {"kind": kind, "text": rest.strip()}
            words = []
            for w in fields:
                if "=" in w and w.split("=", 1)[0] in ("property", "key", "witness"):
                    k, v = w.split("=", 1)
                    d[k] = v
                else:
                    words.append(w)
            d["what"] = " ".join(words)
            if d.get("property") == prop_id:
                out.append(d)
    return out


# ----------------------------------------------------------------------------------
# statistics


def case_hash(case) -> int:
    s = json.dumps(case, sort_keys=True, default=str)
    return int.from_bytes(hashlib.blake2b(s.encode(), digest_size=8).digest(), "big")


def _abbrev(x, depth=0):
    """Shorten big arrays so that samples stay readable."""
    if isinstance(x, dict):
        return {k: _abbrev(v, depth + 1) for k, v in x.items()}
    if isinstance(x, (list, tuple)):
        flat = 0

        def count(y):
            nonlocal flat
            if isinstance(y, (list, tuple)):
                for z in y:
                    count(z)
            else:
                flat += 1

        count(x)
        if flat > 48:
            head = x[:2] if len(x) > 2 else x
            return {
                "_abbreviated": True,
                "len": len(x),
                "leaves": flat,
                "head": _abbrev(head, depth + 1) if flat // max(len(x), 1) < 48 else "...",
            }
        return [_abbrev(v, depth + 1) for v in x]
    if isinstance(x, float):
        if math.isnan(x):
            return "nan"
        if math.isinf(x):
            return "inf" if x > 0 else "-inf"
    return x


class OracleStats:
    def __init__(self, name):
        self.name = name
        self.generated = 0
        self.evaluated = 0
        self.nontrivial_hashes = set()
        self.excluded_known = 0
        self.known_model_checked = 0
        self.skipped = Counter()
        self.rejected = Counter()
        self.labels = Counter()
        self.max_residual = 0.0
        self.samples = []
        self.budget_skipped = 0
        self.planned = 0
        self.shrink_evals = 0

    def record(self, case, info):
        self.evaluated += 1
        info = info or {}
        for lab in info.get("labels", ()):
            self.labels[lab] += 1
        r = info.get("residual")
        if r is not None and r == r and r > self.max_residual:
            self.max_residual = float(r)
        if info.get("nontrivial", False):
            self.nontrivial_hashes.add(case_hash(case))
            if len(self.samples) < 2:
                self.samples.append(_abbrev(case))
        elif not self.samples and self.evaluated > 20:
            pass

    def to_json(self):
        return {
            "name": self.name,
            "planned": self.planned,
            "generated": self.generated,
            "evaluated": self.evaluated,
            "nontrivial": len(self.nontrivial_hashes),
            "excluded_known": self.excluded_known,
            "known_model_checked": self.known_model_checked,
            "skipped": dict(self.skipped),
            "rejected": dict(self.rejected),
            "labels": dict(self.labels),
            "max_residual": self.max_residual,
            "samples": self.samples,
            "budget_skipped": self.budget_skipped,
            "shrink_evals": self.shrink_evals,
            "hashes": sorted(self.nontrivial_hashes),
        }


# ----------------------------------------------------------------------------------
# running one oracle under Hypothesis


def derive_seed(*parts) -> int:
    s = "|".join(str(p) for p in parts)
    return int.from_bytes(hashlib.blake2b(s.encode(), digest_size=7).digest(), "big")


def evaluate(oracle: Oracle, case, active_known=frozenset()):
    """Deterministic evaluation of one case (also the replay path).

    Returns ("ok", info) | ("skip", reason) | ("rejected", text) | ("excluded", cls)
    | ("fail", msg, residual).
    """
    cls = oracle.classify(case)
    fn = oracle.check
    known_model = False
    if cls in active_known:
        if cls in oracle.known_models:
            fn = oracle.known_models[cls]
            known_model = True
        else:
            return ("excluded", cls)
    try:
        info = fn(case)
    except Skip as s:
        return ("skip", str(s) or "skip")
    except Rejected as r:
        return ("rejected", str(r).split(":")[0])
    except Violation as v:
        return ("fail", str(v), v.residual, cls)
    info = dict(info or {})
    info["_known_model"] = known_model
    return ("ok", info)


def run_oracle(prop_id, oracle: Oracle, n_examples, seed_int, active_known, deadline_ts, skip_minimal=False):
    """Run one oracle; returns (stats, failures) with failures = list of dicts.

    `skip_minimal`: Hypothesis opens every run with the all-minimal example, which is the
    same in every shard; shards other than the first do not spend an evaluation on it (it is
    neither evaluated nor counted, and one more example is requested instead)."""
    import hypothesis
    from hypothesis import HealthCheck, Phase, given, settings

    stats = OracleStats(oracle.name)
    stats.planned = n_examples
    failures = []
    local_known = set(active_known)
    rounds = 0
    remaining = n_examples
    while remaining > 0 and rounds < 4:
        rounds += 1
        best = {}
        t_first_fail = [None]
        calls = [0]
        skip_this_round = skip_minimal and rounds == 1 and oracle.machine is None

        def body(case):
            calls[0] += 1
            if skip_this_round and calls[0] == 1:
                return
            if time.time() > deadline_ts:
                stats.budget_skipped += 1
                return
            if (
                t_first_fail[0] is not None
                and time.time() - t_first_fail[0] > oracle.shrink_seconds
            ):
                return  # shrink budget used up: let Hypothesis wind down
            shrinking = t_first_fail[0] is not None
            _note_inflight(prop_id, oracle, case)
            res = evaluate(oracle, case, frozenset(local_known))
            kind = res[0]
            if shrinking:
                # shrink-phase executions are biased towards tiny inputs: not counted
                stats.shrink_evals += 1
                if kind != "fail":
                    return
            else:
                stats.generated += 1
            if kind == "ok":
                if res[1].pop("_known_model", False):
                    stats.known_model_checked += 1
                stats.record(case, res[1])
            elif kind == "skip":
                stats.skipped[res[1]] += 1
            elif kind == "rejected":
                stats.rejected[res[1]] += 1
            elif kind == "excluded":
                stats.excluded_known += 1
            else:
                _, msg, residual, cls = res
                size = len(json.dumps(case, default=str))
                if not best or size <= best["size"]:
                    best.update(case=case, msg=msg, cls=cls, size=size, residual=residual)
                if t_first_fail[0] is None:
                    t_first_fail[0] = time.time()
                raise Violation(msg, residual)

        before = stats.generated
        if oracle.machine is not None:
            _run_machine(prop_id, oracle, remaining, seed_int, rounds, stats, best, local_known, deadline_ts)
        else:
            test = given(oracle.strategy)(body)
            test = settings(
                max_examples=remaining + (1 if skip_this_round else 0),
                database=None,
                deadline=None,
                derandomize=False,
                report_multiple_bugs=False,
                phases=[Phase.generate, Phase.shrink],
                suppress_health_check=list(HealthCheck),
                print_blob=False,
            )(test)
            test = hypothesis.seed(derive_seed(seed_int, prop_id, oracle.name, rounds))(test)
            try:
                test()
            except Violation:
                pass
            except hypothesis.errors.Flaky:
                pass
            except hypothesis.errors.FlakyFailure:
                pass
        if best:
            failures.append(
                {
                    "oracle": oracle.name,
                    "class": best["cls"],
                    "case": best["case"],
                    "message": best["msg"],
                    "residual": best["residual"],
                }
            )
            local_known.add(best["cls"])
            # remove this class' model so that it is skipped for the rest of the run
            remaining -= max(stats.generated - before, 1)
            # a class without known model is now skipped through `excluded`
            oracle = dataclasses.replace(
                oracle,
                known_models={
                    k: v for k, v in oracle.known_models.items() if k != best["cls"]
                },
            )
        else:
            break
    return stats, failures


class _Hooks:
    def __init__(self, oracle, stats, best, local_known, deadline_ts):
        self.oracle, self.stats, self.best = oracle, stats, best
        self.local_known, self.deadline_ts = local_known, deadline_ts
        self.t_first_fail = None

    def over_budget(self):
        return time.time() > self.deadline_ts or (
            self.t_first_fail is not None and time.time() - self.t_first_fail > self.oracle.shrink_seconds
        )

    def excluded(self, case):
        return self.oracle.classify(case) in self.local_known

    def done(self, case, info):
        if self.t_first_fail is not None:
            self.stats.shrink_evals += 1
            return
        self.stats.generated += 1
        if self.excluded(case):
            self.stats.excluded_known += 1
            return
        self.stats.record(case, info)

    def fail(self, case, msg, residual=None):
        if self.excluded(case):
            return False  # known class: not reported, machine run continues as a pass
        size = len(json.dumps(case, default=str))
        if not self.best or size <= self.best["size"]:
            self.best.update(case=case, msg=msg, cls=self.oracle.classify(case), size=size, residual=residual)
        if self.t_first_fail is None:
            self.t_first_fail = time.time()
        return True


def _run_machine(prop_id, oracle, n_examples, seed_int, rounds, stats, best, local_known, deadline_ts):
    import hypothesis
    from hypothesis import HealthCheck, Phase, settings
    from hypothesis.stateful import run_state_machine_as_test

    hooks = _Hooks(oracle, stats, best, local_known, deadline_ts)
    Machine = oracle.machine(hooks)
    Machine = hypothesis.seed(derive_seed(seed_int, prop_id, oracle.name, rounds))(Machine)
    try:
        run_state_machine_as_test(
            Machine,
            settings=settings(
                max_examples=n_examples,
                stateful_step_count=oracle.machine_steps,
                database=None,
                deadline=None,
                derandomize=False,
                report_multiple_bugs=False,
                phases=[Phase.generate, Phase.shrink],
                suppress_health_check=list(HealthCheck),
                print_blob=False,
            ),
        )
    except Violation:
        pass
    except hypothesis.errors.Flaky:
        pass
    except hypothesis.errors.FlakyFailure:
        pass


# ----------------------------------------------------------------------------------
# property level driver


def _write_replay(prop_id, failure, seed, tier):
    os.makedirs(REPLAY_DIR, exist_ok=True)
    h = hashlib.blake2b(
        json.dumps(failure["case"], sort_keys=True, default=str).encode(), digest_size=4
    ).hexdigest()
    safe = "".join(c if c.isalnum() or c in "-_" else "_" for c in failure["oracle"])
    path = os.path.join(REPLAY_DIR, f"{prop_id}-{safe}-{h}.json")
    with open(path, "w") as f:
        json.dump(
            {
                "property": prop_id,
                "oracle": failure["oracle"],
                "class": failure["class"],
                "message": failure["message"],
                "seed": seed,
                "tier": tier,
                "case": failure["case"],
            },
            f,
            indent=1,
            default=str,
        )
    return path


def replay_file(prop_id, module, path, active_known=frozenset()):
    with open(path) as f:
        doc = json.load(f)
    oracles = {o.name: o for o in module.ORACLES}
    if doc["oracle"] not in oracles:
        raise RuntimeError(f"unknown oracle {doc['oracle']} in {path}")
    return evaluate(oracles[doc["oracle"]], doc["case"], active_known), doc


def check_known(prop_id, module):
    """Replay the witnesses of known findings.

    Returns (active: dict oracle-> set(classes), lines: list[str]).
    A witness that no longer fails lifts the exclusion for this run.
    """
    active = {}
    lines = []
    details = []
    for ent in load_known(prop_id):
        if ent["kind"] != "known":
            continue
        key = ent.get("key", "")
        oname, _, cls = key.partition(":")
        wit = ent.get("witness")
        still = True
        if wit:
            wpath = os.path.join(ROOT, wit)
            res, _doc = replay_file(prop_id, module, wpath)
            # only a witness that now passes cleanly lifts the finding; an inconclusive replay
            # (time limit, input refused) leaves it listed for this run
            still = res[0] != "ok"
        details.append({"key": key, "witness": wit, "still_fails": still, "replay": res[0] if wit else None})
        if still:
            active.setdefault(oname, set()).add(cls)
            lines.append(f"KNOWN-FINDING: property={prop_id} {key} {ent['what']}")
    return active, lines, details


def _inflight_path(prop_id, tier, shard):
    return os.path.join(WORK_DIR, prop_id, f"inflight-{tier}-{shard}.json")


def run_shard(prop_id, module, tier, seed, shard, nshards, budget_s, only=None):
    """Run all oracles of a property in this process; returns result dict."""
    t0 = time.time()
    deadline_ts = t0 + budget_s
    if nshards > 1:
        _INFLIGHT[0] = _inflight_path(prop_id, tier, shard)
    active, known_lines, known_details = check_known(prop_id, module)
    results = []
    failures = []
    for oracle in module.ORACLES:
        if only and oracle.name not in only:
            continue
        n = oracle.quick if tier == "quick" else oracle.thorough
        if n <= 0:
            continue
        if tier == "quick" and nshards > 1:
            n = max(1, math.ceil(n / nshards))
        st, fl = run_oracle(
            prop_id,
            oracle,
            n,
            derive_seed(seed, shard),
            frozenset(active.get(oracle.name, ())),
            deadline_ts,
            skip_minimal=shard > 0,
        )
        results.append(st.to_json())
        failures.extend(fl)
    return {
        "oracles": results,
        "failures": failures,
        "known_lines": known_lines,
        "known_details": known_details,
        "wall_s": time.time() - t0,
    }


def merge_and_report(prop_id, module, tier, seed, parts, wall_s, nshards):
    import numpy as np

    per_oracle = {}
    failures = []
    known_lines = []
    known_details = []
    for p in parts:
        failures.extend(p["failures"])
        if not known_lines:
            known_lines = p["known_lines"]
            known_details = p["known_details"]
        for o in p["oracles"]:
            d = per_oracle.setdefault(
                o["name"],
                {
                    "planned": 0,
                    "generated": 0,
                    "evaluated": 0,
                    "excluded_known": 0,
                    "known_model_checked": 0,
                    "skipped": Counter(),
                    "rejected": Counter(),
                    "labels": Counter(),
                    "max_residual": 0.0,
                    "samples": [],
                    "budget_skipped": 0,
                    "shrink_evals": 0,
                    "hashes": [],
                },
            )
            for k in (
                "planned",
                "generated",
                "evaluated",
                "excluded_known",
                "known_model_checked",
                "budget_skipped",
                "shrink_evals",
            ):
                d[k] += o[k]
            d["skipped"].update(o["skipped"])
            d["rejected"].update(o["rejected"])
            d["labels"].update(o["labels"])
            d["max_residual"] = max(d["max_residual"], o["max_residual"])
            if len(d["samples"]) < 2:
                d["samples"].extend(o["samples"][: 2 - len(d["samples"])])
            d["hashes"].append(np.asarray(o["hashes"], dtype=np.uint64))

    evaluations = 0
    distinct = 0
    samples = []
    oracle_summary = {}
    for name, d in per_oracle.items():
        hs = np.unique(np.concatenate(d.pop("hashes"))) if d["hashes"] else []
        d["distinct_nontrivial"] = int(len(hs))
        evaluations += d["evaluated"] + d["known_model_checked"] * 0
        distinct += d["distinct_nontrivial"]
        for s in d.pop("samples"):
            if len(samples) < 8:
                samples.append({"oracle": name, "case": s})
        d["skipped"] = dict(d["skipped"])
        d["rejected"] = dict(d["rejected"])
        d["labels"] = dict(sorted(d["labels"].items(), key=lambda kv: -kv[1])[:40])
        oracle_summary[name] = d

    # de-duplicate failures by (oracle, class): keep the smallest case
    uniq = {}
    for f in failures:
        k = (f["oracle"], f["class"])
        size = len(json.dumps(f["case"], default=str))
        if k not in uniq or size < uniq[k][0]:
            uniq[k] = (size, f)
    violations = []
    oracles = {o.name: o for o in module.ORACLES}
    for (oname, cls), (_, f) in sorted(uniq.items()):
        # deterministic confirmation outside Hypothesis
        res = evaluate(oracles[oname], f["case"], frozenset())
        f["reproduced"] = res[0] == "fail"
        path = _write_replay(prop_id, f, seed, tier)
        violations.append((oname, cls, f, path))

    for line in known_lines:
        print(line)
    for oname, cls, f, path in violations:
        print(f"  {oname}[{cls}]: {f['message'][:300]}")
        print(f"VIOLATION property={prop_id} replay={path}")

    inconclusive = [n for n, d in oracle_summary.items() if d["budget_skipped"] > 0]
    evidence = {
        "property_id": prop_id,
        "tier": tier,
        "seed": int(seed),
        "level": "exploration",
        "coverage": {
            "evaluations": int(evaluations),
            "distinct_nontrivial": int(distinct),
            "rule": getattr(module, "RULE", ""),
            "samples": samples
            or [{"note": "no non-trivial sample recorded in this run"}],
            "exhaustive": False,
            "oracles": oracle_summary,
            "shards": nshards,
            "known_findings": known_details,
            "inconclusive_oracles": inconclusive,
            "violating_oracles": [
                {"oracle": o, "class": c, "message": f["message"][:300], "replay": p}
                for o, c, f, p in violations
            ],
        },
        "assumptions": list(getattr(module, "ASSUMPTIONS", [])),
        "wall_s": round(wall_s, 2),
        "violations": len(violations),
    }
    os.makedirs(EVIDENCE_DIR, exist_ok=True)
    with open(os.path.join(EVIDENCE_DIR, f"{prop_id}.json"), "w") as f:
        json.dump(evidence, f, indent=1, default=str)
    print(
        f"[{prop_id}] tier={tier} seed={seed} evaluations={evaluations} "
        f"distinct_nontrivial={distinct} violations={len(violations)} "
        f"known={len(known_lines)} wall={wall_s:.1f}s"
        + (f" inconclusive={inconclusive}" if inconclusive else "")
    )
    return 1 if violations else 0


def run_property(prop_id, module, tier, seed, nshards, budget_s, only=None):
    """Parent: run shards as subprocesses (clean numba state), merge, report."""
    t0 = time.time()
    os.makedirs(os.path.join(WORK_DIR, prop_id), exist_ok=True)
    if nshards <= 1:
        parts = [run_shard(prop_id, module, tier, seed, 0, 1, budget_s, only)]
    else:
        procs = []
        outs = []
        for k in range(nshards):
            out = os.path.join(WORK_DIR, prop_id, f"part-{tier}-{k}.json")
            if os.path.exists(out):
                os.unlink(out)
            outs.append(out)
            cmd = [
                sys.executable,
                os.path.join(ROOT, "run.py"),
                prop_id,
                "--tier",
                tier,
                "--seed",
                str(seed),
                "--shard",
                f"{k}/{nshards}",
                "--partial",
                out,
                "--budget",
                str(budget_s),
            ]
            if only:
                cmd += ["--only", ",".join(only)]
            procs.append(subprocess.Popen(cmd, stdout=subprocess.PIPE, stderr=subprocess.STDOUT))
        parts = []
        bad = []
        hard_deadline = t0 + budget_s + 900.0
        timed_out = []
        for k, (p, out) in enumerate(zip(procs, outs)):
            try:
                stdout, _ = p.communicate(timeout=max(5.0, hard_deadline - time.time()))
            except subprocess.TimeoutExpired:
                p.kill()
                stdout, _ = p.communicate()
                timed_out.append(k)
                print(f"[{prop_id}] shard {k} exceeded the wall budget and was stopped (inconclusive, not a violation)")
                continue
            if p.returncode != 0 or not os.path.exists(out):
                bad.append((k, p.returncode, stdout.decode(errors="replace")[-3000:]))
                continue
            with open(out) as f:
                parts.append(json.load(f))
            os.unlink(out)
        aborts = []
        for k, rc, txt in list(bad):
            # killed by a signal: did the code under test abort the interpreter on a generated
            # input?  Replay the case that was in flight in a fresh process; only a second death
            # by signal counts (deterministic, attributable), anything else stays a harness error.
            inflight = _inflight_path(prop_id, tier, k)
            if rc is not None and rc < 0 and os.path.exists(inflight):
                rp = subprocess.run(
                    [sys.executable, os.path.join(ROOT, "run.py"), prop_id, "--replay", inflight],
                    stdout=subprocess.PIPE,
                    stderr=subprocess.STDOUT,
                    timeout=3600,
                    env=dict(os.environ, VERIF_REPLAYING="1"),
                )
                if rp.returncode < 0:
                    with open(inflight) as f:
                        doc = json.load(f)
                    tail = rp.stdout.decode(errors="replace")
                    first = next((ln for ln in tail.splitlines() if "Fatal Python error" in ln or "Error" in ln), "")
                    msg = f"the code under test killed the interpreter (signal {-rp.returncode}) on this input, twice: {first.strip()[:200]}"
                    aborts.append({"oracle": doc["oracle"], "class": "abort", "case": doc["case"], "message": msg, "residual": None})
                    bad.remove((k, rc, txt))
        for k in range(nshards):
            try:
                os.unlink(_inflight_path(prop_id, tier, k))
            except OSError:
                pass
        if bad or (not parts and not aborts):
            for k, rc, txt in bad:
                print(f"HARNESS-ERROR shard {k} rc={rc}\n{txt}", file=sys.stderr)
            return 2
        if aborts:
            rc_merge = merge_and_report(prop_id, module, tier, seed, parts, time.time() - t0, nshards) if parts else 0
            for fl in aborts:
                path = _write_replay(prop_id, fl, seed, tier)
                print(f"  {fl['oracle']}[abort]: {fl['message']}")
                print(f"VIOLATION property={prop_id} replay={path}")
            return 1
    return merge_and_report(prop_id, module, tier, seed, parts, time.time() - t0, nshards)
