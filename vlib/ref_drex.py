"""Independent reference implementation of the D-Rex rate equations (vector form).

Written from Kaminski & Ribe (2001), Kaminski, Ribe & Browaeys (2004) and the
corrections in Fraters & Billen (2021, S1); shares no code with pydrex.core.

Conventions (documented in pydrex): orientation matrix rows are the crystal axes
a=[100], b=[010], c=[001] expressed in the external frame.  Slip systems in the
documented order: (010)[100], (001)[100], (010)[001], (100)[001], each as
(slip direction l, plane normal n).
"""

import numpy as np

INF = np.inf
# CRSS table per (phase, fabric), documented slip-system order.
CRSS = {
    (0, 0): (1.0, 2.0, 3.0, INF),  # olivine A
    (0, 1): (3.0, 2.0, 1.0, INF),  # olivine B
    (0, 2): (3.0, 2.0, INF, 1.0),  # olivine C
    (0, 3): (1.0, 1.0, 3.0, INF),  # olivine D
    (0, 4): (3.0, 1.0, 2.0, INF),  # olivine E
    (1, 5): (INF, INF, INF, 1.0),  # enstatite AB
}
# (direction row, normal row) of the orientation matrix for each slip system
SLIP = ((0, 1), (0, 2), (2, 1), (2, 0))


def slip_vectors(A):
    l = np.stack([A[d] for d, _ in SLIP])
    n = np.stack([A[p] for _, p in SLIP])
    return l, n


def grain(phase, fabric, A, L, p, n_exp, lam):
    """Return dict with spin, rotation rate, strain energy and diagnostics for one grain."""
    A = np.asarray(A, dtype=float)
    L = np.asarray(L, dtype=float)
    D = 0.5 * (L + L.T)
    tau = np.array(CRSS[(phase, fabric)])
    l, nrm = slip_vectors(A)
    I = np.einsum("si,ij,sj->s", l, D, nrm)
    with np.errstate(divide="ignore", invalid="ignore"):
        act = np.abs(I / tau)
    out = {"I": I, "act": act, "tau": tau}
    beta = np.zeros(4)
    if phase == 0:
        order = np.argsort(act, kind="stable")
        i_inac, i_min, i_int, i_max = order
        out["order"] = order
        qmax = act[i_max]
        if qmax > 0:
            ref = I[i_max] / tau[i_max]
            for s in (i_min, i_int):
                r = (I[s] / tau[s]) / ref
                beta[s] = r * abs(r) ** (n_exp - 1.0)
            beta[i_max] = 1.0
    else:
        if abs(I[3]) > 1e-15:
            beta[3] = 1.0
    out["beta"] = beta
    G = 2.0 * np.einsum("s,si,sj->ij", beta, l, nrm)
    Gs = 0.5 * (G + G.T)
    den = float(np.sum(Gs * Gs))
    # least-squares fit of the strain rate by gamma * sym(G)
    gamma = float(np.sum(Gs * D)) / den if 2.0 * den >= 1e-15 else 0.0
    out["gamma"] = gamma
    out["den"] = 2.0 * den
    Om = 0.5 * (L - L.T) - gamma * 0.5 * (G - G.T)  # spin tensor: x -> omega x x
    omega = np.array([Om[2, 1], Om[0, 2], Om[1, 0]])
    out["omega"] = omega
    out["Adot"] = np.stack([np.cross(omega, A[i]) for i in range(3)])
    with np.errstate(divide="ignore", invalid="ignore", over="ignore"):
        rho = np.zeros(4)
        for s in range(4):
            b = abs(beta[s] * gamma)
            if b == 0.0 or np.isinf(tau[s]):
                rho[s] = 0.0
            else:
                rho[s] = tau[s] ** (p - n_exp) * b ** (p / n_exp)
    out["rho"] = rho
    out["E"] = float(np.sum(rho * np.exp(-lam * rho**2)))
    return out


def derivatives(regime, phase, fabric, As, f, L, p, n_exp, lam, M, phi):
    """Reference for pydrex.core.derivatives in the dislocation-type regimes (4, 6)."""
    gs = [grain(phase, fabric, A, L, p, n_exp, lam) for A in As]
    Adot = np.stack([g["Adot"] for g in gs])
    E = np.array([g["E"] for g in gs])
    f = np.asarray(f, dtype=float)
    Ebar = float(np.sum(f * E))
    fdot = phi * M * f * (Ebar - E)
    damp = 0.3 if regime == 6 else 1.0
    return damp * Adot, damp * fdot, gs, E
