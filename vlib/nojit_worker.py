"""Worker: evaluates pydrex.core.derivatives with NUMBA_DISABLE_JIT=1 (interpreted source).

Protocol: one JSON object per line on stdin -> one JSON object per line on stdout.
"""
import json
import os
import sys

assert os.environ.get("NUMBA_DISABLE_JIT") == "1"
sys.path.insert(0, os.environ.get("VERIF_REPO_SRC", "/repo/src"))
import logging  # noqa: E402

import numpy as np  # noqa: E402

from pydrex import core  # noqa: E402
from pydrex import logger as _plog  # noqa: E402

_plog.CONSOLE_LOGGER.setLevel(logging.CRITICAL + 10)
out = sys.stdout
sys.stdout = sys.stderr
out.write(json.dumps({"ready": True, "jit_disabled": not hasattr(core.derivatives, "py_func")}) + "\n")
out.flush()
for line in sys.stdin:
    req = json.loads(line)
    try:
        with np.errstate(all="ignore"):
            Adot, fdot = core.derivatives(
                regime=req["regime"],
                phase=req["phase"],
                fabric=req["fabric"],
                n_grains=len(req["A"]),
                orientations=np.array(req["A"], dtype=float),
                fractions=np.array(req["f"], dtype=float),
                strain_rate=np.array(req["D"], dtype=float),
                velocity_gradient=np.array(req["L"], dtype=float),
                deformation_gradient_spin=np.full((3, 3), np.nan),
                stress_exponent=req["p"],
                deformation_exponent=req["n"],
                nucleation_efficiency=req["lam"],
                gbm_mobility=req["M"],
                volume_fraction=req["phi"],
            )
        res = {"Adot": np.asarray(Adot).tolist(), "fdot": np.asarray(fdot).tolist()}
    except Exception as e:  # noqa: BLE001
        res = {"error": f"{type(e).__name__}: {e}"}
    out.write(json.dumps(res) + "\n")
    out.flush()
