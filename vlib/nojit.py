"""Client side of the interpreted-source worker (one persistent subprocess per checker process)."""
import atexit
import json
import os
import subprocess
import sys

_proc = None


def _start():
    global _proc
    env = dict(os.environ)
    env["NUMBA_DISABLE_JIT"] = "1"
    here = os.path.dirname(os.path.abspath(__file__))
    _proc = subprocess.Popen(
        [sys.executable, os.path.join(here, "nojit_worker.py")],
        stdin=subprocess.PIPE,
        stdout=subprocess.PIPE,
        stderr=subprocess.DEVNULL,
        env=env,
        text=True,
        bufsize=1,
    )
    hello = json.loads(_proc.stdout.readline())
    if not hello.get("ready"):
        raise RuntimeError("nojit worker failed to start")
    if not hello.get("jit_disabled"):
        raise RuntimeError("nojit worker: JIT is not disabled")
    atexit.register(stop)


def stop():
    global _proc
    if _proc is not None:
        try:
            _proc.stdin.close()
            _proc.wait(timeout=5)
        except Exception:  # noqa: BLE001
            _proc.kill()
        _proc = None


def derivatives(x):
    """x: expanded case (see drexcase.expand). Returns (Adot, fdot) lists or raises RuntimeError text."""
    if _proc is None:
        _start()
    req = {
        "regime": int(x["regime"]),
        "phase": int(x["phase"]),
        "fabric": int(x["fabric"]),
        "A": x["A"].tolist(),
        "f": x["f"].tolist(),
        "D": x["D"].tolist(),
        "L": x["L"].tolist(),
        "p": float(x["p"]),
        "n": float(x["n"]),
        "lam": float(x["lam"]),
        "M": float(x["M"]),
        "phi": float(x["phi"]),
    }
    _proc.stdin.write(json.dumps(req) + "\n")
    _proc.stdin.flush()
    line = _proc.stdout.readline()
    if not line:
        raise RuntimeError("nojit worker died")
    return json.loads(line)
