"""Independent reference for misorientation (disorientation) angles and a correct M-index.

Proper rotation groups per lattice system (crystal frame: rows of the orientation matrix
are the crystal axes, so g.A is the symmetry-equivalent orientation):
triclinic 1, monoclinic 2 (about b), orthorhombic 222, rhombohedral 32, tetragonal 422,
hexagonal 622.  The theoretical density of a uniform texture is estimated once per system
by Monte-Carlo (fixed seed, 4e5 random pairs), which is accurate to ~1e-2 in M-index terms.
"""

import functools
import math

import numpy as np

from vlib import gen


def _z(a):
    return gen.axis_angle_matrix([0, 0, 1], a)


X2 = np.diag([1.0, -1.0, -1.0])
Y2 = np.diag([-1.0, 1.0, -1.0])
Z2 = np.diag([-1.0, -1.0, 1.0])


@functools.lru_cache(maxsize=None)
def group(name):
    if name == "triclinic":
        ops = [np.eye(3)]
    elif name == "monoclinic":
        ops = [np.eye(3), Y2]
    elif name == "orthorhombic":
        ops = [np.eye(3), X2, Y2, Z2]
    else:
        k = {"rhombohedral": 3, "tetragonal": 4, "hexagonal": 6}[name]
        rots = [_z(2 * math.pi * i / k) for i in range(k)]
        ops = rots + [X2 @ r for r in rots]
    return np.stack(ops)


def pair_angles(A, name):
    """Disorientation angle (degrees) for every unordered pair of orientations."""
    A = np.asarray(A, dtype=float)
    n = len(A)
    iu, ju = np.triu_indices(n, 1)
    M = np.einsum("pij,pkj->pik", A[iu], A[ju])  # A_i . A_j^T
    Gp = group(name)
    tr = np.einsum("gij,pji->pg", Gp, M)  # trace(g.M)
    c = np.clip((tr.max(axis=1) - 1.0) / 2.0, -1.0, 1.0)
    return np.degrees(np.arccos(c))


@functools.lru_cache(maxsize=None)
def uniform_density(name, npairs=400000, seed=20261004):
    """Monte-Carlo probability per 1-degree bin on [0,180) for a uniform texture."""
    rng = np.random.default_rng(seed)
    out = np.zeros(180)
    chunk = 20000
    for _ in range(npairs // chunk):
        q = rng.normal(size=(chunk, 4))
        R = np.stack([gen.quat_to_matrix(x) for x in q])  # relative rotation is uniform too
        tr = np.einsum("gij,pji->pg", group(name), R)
        ang = np.degrees(np.arccos(np.clip((tr.max(axis=1) - 1) / 2, -1, 1)))
        out += np.histogram(ang, bins=180, range=(0, 180))[0]
    return out / out.sum()


def m_index(A, name):
    ang = pair_angles(A, name)
    obs = np.histogram(ang, bins=180, range=(0, 180))[0] / len(ang)
    return 0.5 * float(np.abs(uniform_density(name) - obs).sum())


def edge_pairs(A, name):
    """Number of pairs whose disorientation angle is so close to an integer number of
    degrees that float32 rounding inside a histogram-based implementation may move it to
    the neighbouring 1-degree bin."""
    ang = pair_angles(A, name)
    half = np.radians(np.maximum(ang, 1e-6) / 2)
    win = np.maximum(1e-3, 1e-4 / np.sin(half))
    dist = np.abs(ang - np.round(ang))
    return int(np.count_nonzero(dist <= win)), len(ang)
