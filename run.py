#!/venv/bin/python
"""Entry point of every registered check.

    run.py <ID> --tier quick|thorough [--seed N] [--shards K] [--only o1,o2]
    run.py <ID> --replay FILE

Exit 0: property held on everything explored (KNOWN-FINDING lines may be printed).
Exit 1: a line ``VIOLATION property=<ID> replay=<path>`` was printed.
Exit 2: harness error (never a VIOLATION).
"""

import argparse
import importlib
import json
import os
import sys
import traceback

ROOT = os.path.dirname(os.path.abspath(__file__))


def _bootstrap_env():
    """Fix the process environment before numpy/numba/pydrex are imported."""
    want = {
        "PYTHONHASHSEED": "0",
        "NUMBA_NUM_THREADS": "1",
        "OMP_NUM_THREADS": "1",
        "OPENBLAS_NUM_THREADS": "1",
        "MKL_NUM_THREADS": "1",
        "MPLBACKEND": "Agg",
        "PYTHONUTF8": "1",
        "PYDREX_VERIF": "1",
    }
    changed = False
    for k, v in want.items():
        if os.environ.get(k) != v:
            os.environ[k] = v
            changed = True
    if changed and os.environ.get("_VERIF_REEXEC") != "1":
        os.environ["_VERIF_REEXEC"] = "1"
        os.execv(sys.executable, [sys.executable] + sys.argv)
    repo_src = os.environ.get("VERIF_REPO_SRC", "/repo/src")
    sys.path.insert(0, repo_src)
    sys.path.insert(0, ROOT)
    deps = os.path.join(ROOT, ".deps")
    if os.path.isdir(deps):
        sys.path.append(deps)


def main():
    ap = argparse.ArgumentParser()
    ap.add_argument("prop")
    ap.add_argument("--tier", default=os.environ.get("VERIF_TIER", "quick"))
    ap.add_argument("--seed", type=int, default=None)
    ap.add_argument("--shards", type=int, default=None)
    ap.add_argument("--shard", default=None, help="k/N (internal)")
    ap.add_argument("--partial", default=None, help="(internal) partial result path")
    ap.add_argument("--budget", type=float, default=None, help="wall budget in s")
    ap.add_argument("--only", default=None)
    ap.add_argument("--replay", default=None)
    args = ap.parse_args()

    seed = args.seed
    if seed is None:
        try:
            seed = int(os.environ.get("VERIF_SEED", "1"))
        except ValueError:
            seed = 1
    tier = args.tier if args.tier in ("quick", "thorough") else "quick"
    prop = args.prop.upper()

    import logging
    import warnings

    warnings.simplefilter("ignore")
    from vlib import harness

    try:
        import pydrex  # noqa: F401
        from pydrex import logger as _plog

        _plog.CONSOLE_LOGGER.setLevel(logging.CRITICAL + 10)
        _plog.LOGGER.setLevel(logging.CRITICAL + 10)
    except Exception:
        print("HARNESS-ERROR cannot import pydrex from the working tree", file=sys.stderr)
        traceback.print_exc()
        return 2

    module = importlib.import_module(f"checks.{prop.lower()}")
    only = args.only.split(",") if args.only else None

    if args.replay:
        active, lines, _ = harness.check_known(prop, module)
        res, doc = harness.replay_file(prop, module, args.replay)
        if res[0] == "fail":
            print(f"  {doc['oracle']}[{res[3]}]: {res[1][:400]}")
            print(f"VIOLATION property={prop} replay={os.path.abspath(args.replay)}")
            return 1
        print(f"[{prop}] replay {args.replay}: {res[0]} {str(res[1])[:200]}")
        return 0

    default_budget = {"quick": 900.0, "thorough": 3 * 3600.0}[tier]
    budget = args.budget if args.budget is not None else default_budget

    if args.shard:
        k, n = (int(x) for x in args.shard.split("/"))
        part = harness.run_shard(prop, module, tier, seed, k, n, budget, only)
        with open(args.partial, "w") as f:
            json.dump(part, f, default=str)
        return 0

    nshards = args.shards
    if nshards is None:
        nshards = getattr(module, "SHARDS", {}).get(tier, 1 if tier == "quick" else 16)
    return harness.run_property(prop, module, tier, seed, nshards, budget, only)


if __name__ == "__main__":
    _bootstrap_env()
    try:
        rc = main()
    except SystemExit:
        raise
    except BaseException:  # noqa: BLE001
        traceback.print_exc()
        print("HARNESS-ERROR (see traceback above)", file=sys.stderr)
        rc = 2
    sys.exit(rc)
